package c09

import (
	"encoding/json"
	"fmt"
	"sort"
	"strconv"
	"strings"

	"github.com/sourcenetwork/defradb/client"
	"github.com/sourcenetwork/defradb/verifharness/hx"
)

// danglingID is a well-formed docID that is never created.
const danglingID = "bae-93b58e20-b3e1-55b9-b5b8-0617fabe710e"

// mdoc is the harness's own record of one document.
type mdoc struct {
	id   string
	name string
	col  int
	n    *int
	fk   *string
	live bool
}

// obs is what a run observed, for labels and the non-triviality rule.
type obs struct {
	labels       map[string]bool
	inverted     int // queries whose explain showed the inverted join direction
	queries      int
	parent2      bool // a related-side document with >=2 live holders (1-N) / with a holder (1-1)
	parent0      bool // a live related-side document without holder
	rejected11   int
	knownAvoided bool
}

func (o *obs) label(l string) {
	if o.labels == nil {
		o.labels = map[string]bool{}
	}
	o.labels[l] = true
}

type world struct {
	c    Case
	tp   topoDef
	idx  *hx.Node
	twin *hx.Node
	docs [][]*mdoc
	byID map[string]*mdoc
	seq  int
	o    *obs
	// lastRefused: the write just executed was expected to be refused by the one-to-one check
	lastRefused bool
}

func (w *world) nodes() []*hx.Node {
	if w.twin == nil {
		return []*hx.Node{w.idx}
	}
	return []*hx.Node{w.idx, w.twin}
}

func nodeName(i int) string {
	if i == 0 {
		return "indexed"
	}
	return "plain"
}

func (w *world) live(col int) []*mdoc {
	var out []*mdoc
	for _, d := range w.docs[col] {
		if d.live {
			out = append(out, d)
		}
	}
	return out
}

// target returns the live document d's foreign key points at, or nil.
func (w *world) target(d *mdoc) *mdoc {
	if d.fk == nil {
		return nil
	}
	t := w.byID[*d.fk]
	if t == nil || !t.live {
		return nil
	}
	return t
}

// holders returns the live documents of relation k whose foreign key equals id.
func (w *world) holders(k int, id string) []*mdoc {
	var out []*mdoc
	for _, d := range w.live(w.tp.Rels[k].From) {
		if d.fk != nil && *d.fk == id {
			out = append(out, d)
		}
	}
	return out
}

func colName(i int) string { return "T" + strconv.Itoa(i) }

func intLit(p *int) string {
	if p == nil {
		return "null"
	}
	return strconv.Itoa(*p)
}

func strLit(p *string) string {
	if p == nil {
		return "null"
	}
	return strconv.Quote(*p)
}

func runCase(c Case) (*obs, *hx.Failure) {
	o := &obs{}
	tp := topoByName(c.Topo)
	w := &world{c: c, tp: tp, byID: map[string]*mdoc{}, o: o, docs: make([][]*mdoc, tp.NCols)}
	w.idx = hx.MustMemNode()
	defer w.idx.Close()
	if _, err := w.idx.DB.AddSchema(w.idx.Ctx, c.sdl(true)); err != nil {
		hx.Harnessf("schema rejected: %v\n%s", err, c.sdl(true))
	}
	if c.anyIndex() {
		w.twin = hx.MustMemNode()
		defer w.twin.Close()
		if _, err := w.twin.DB.AddSchema(w.twin.Ctx, c.sdl(false)); err != nil {
			hx.Harnessf("twin schema rejected: %v\n%s", err, c.sdl(false))
		}
	}
	for i, op := range c.Ops {
		before := o.rejected11
		if f := w.write(i, op); f != nil {
			return o, f
		}
		w.lastRefused = o.rejected11 > before
		// membership from the two unfiltered shapes after every write; the id-filter shape
		// at the midpoint and at the end. The twin is inspected at those two points and after
		// every refused write (a refusal must leave nothing behind on either node).
		full := i == len(c.Ops)/2 || i == len(c.Ops)-1
		if f := w.checkState(i, full || w.lastRefused); f != nil {
			return o, f
		}
		if f := w.checkMembership(i, full); f != nil {
			return o, f
		}
	}
	w.classifyState()
	for qi, q := range c.Queries {
		if f := w.query(qi, q); f != nil {
			return o, f
		}
	}
	if !(c.Avoid && rec.IsKnown(sigSecondary)) {
		if f := w.checkSecondaryIDFilter(); f != nil {
			return o, f
		}
	}
	return o, nil
}

func (w *world) classifyState() {
	for k, r := range w.tp.Rels {
		for _, t := range w.live(r.To) {
			h := len(w.holders(k, t.id))
			if h == 0 {
				w.o.parent0 = true
			}
			if (r.Many && h >= 2) || (!r.Many && h == 1) {
				w.o.parent2 = true
			}
		}
	}
}

// ---------------------------------------------------------------- writes

type outcome struct {
	err string
	id  string
}

func (w *world) resolveLink(rel int, l Link) (set bool, val *string) {
	if rel < 0 {
		return false, nil
	}
	switch l.Mode {
	case 1:
		all := w.docs[w.tp.Rels[rel].To]
		if len(all) == 0 {
			return false, nil
		}
		id := all[l.Tgt%len(all)].id
		return true, &id
	case 2:
		return true, nil
	case 3:
		id := danglingID
		return true, &id
	}
	return false, nil
}

// conflict11 reports whether giving document self (nil for a new one) the foreign key val
// would make a second live document hold the same one-to-one link.
func (w *world) conflict11(rel int, self *mdoc, val *string) bool {
	if rel < 0 || val == nil || w.tp.Rels[rel].Many {
		return false
	}
	for _, d := range w.holders(rel, *val) {
		if d != self {
			return true
		}
	}
	return false
}

func (w *world) write(step int, op Op) *hx.Failure {
	col := op.Col % w.tp.NCols
	rel := w.tp.heldBy(col)
	setL, lval := w.resolveLink(rel, op.Link)
	var nval *int
	if !op.NNull {
		v := op.N
		nval = &v
	}
	fkField := ""
	if rel >= 0 {
		fkField = fmt.Sprintf("r%d_id", rel)
	}
	switch op.K {
	case "create":
		name := fmt.Sprintf("c%dd%d", col, w.seq)
		w.seq++
		fields := []string{fmt.Sprintf("name: %q", name), "n: " + intLit(nval)}
		jsonFields := []string{fmt.Sprintf(`"name": %q`, name), `"n": ` + intLit(nval)}
		if setL {
			fields = append(fields, fkField+": "+strLit(lval))
			jsonFields = append(jsonFields, fmt.Sprintf(`%q: %s`, fkField, strLit(lval)))
		}
		reject := w.conflict11(rel, nil, lval) && setL
		var outs []outcome
		for _, n := range w.nodes() {
			if op.API {
				outs = append(outs, apiCreate(n, col, "{"+strings.Join(jsonFields, ", ")+"}"))
			} else {
				q := fmt.Sprintf(`mutation { create_%s(input: {%s}) { _docID } }`, colName(col), strings.Join(fields, ", "))
				outs = append(outs, gqlWrite(n, q, "create_"+colName(col)))
			}
		}
		if f := w.judge(step, op, "create", reject, outs); f != nil || reject {
			if reject {
				w.o.rejected11++
				w.o.label("hist:1-1-second-holder-rejected")
			}
			return f
		}
		d := &mdoc{id: outs[0].id, name: name, col: col, n: nval, live: true}
		if setL {
			d.fk = lval
		}
		if len(outs) > 1 && outs[1].id != outs[0].id {
			hx.Harnessf("docID differs between indexed node and twin: %s vs %s", outs[0].id, outs[1].id)
		}
		if d.id == "" {
			hx.Harnessf("create returned no docID")
		}
		w.docs[col] = append(w.docs[col], d)
		w.byID[d.id] = d
		if setL && lval != nil {
			if t := w.byID[*lval]; t == nil {
				w.o.label("hist:link-to-never-created")
			} else if !t.live {
				w.o.label("hist:link-to-deleted")
			}
		}
	case "create2":
		// two documents in one create mutation (one transaction), both carrying the same link
		names := []string{fmt.Sprintf("c%dd%d", col, w.seq), fmt.Sprintf("c%dd%d", col, w.seq+1)}
		w.seq += 2
		var inputs []string
		for _, name := range names {
			fields := []string{fmt.Sprintf("name: %q", name), "n: " + intLit(nval)}
			if setL {
				fields = append(fields, fkField+": "+strLit(lval))
			}
			inputs = append(inputs, "{"+strings.Join(fields, ", ")+"}")
		}
		// one-to-one: the second document would be the second holder of the link
		reject := setL && lval != nil && rel >= 0 && !w.tp.Rels[rel].Many
		q := fmt.Sprintf(`mutation { create_%s(input: [%s]) { _docID name } }`, colName(col), strings.Join(inputs, ", "))
		var outs []outcome
		var ids [][2]string
		for _, n := range w.nodes() {
			r := n.Exec(q)
			o := outcome{}
			switch {
			case r.Panic != "":
				o.err = "PANIC " + r.Panic
			case !r.OK():
				o.err = r.Err()
			default:
				var pair [2]string
				for _, row := range r.Rows("create_" + colName(col)) {
					for i, name := range names {
						if row["name"] == name {
							pair[i], _ = row["_docID"].(string)
						}
					}
				}
				ids = append(ids, pair)
			}
			outs = append(outs, o)
		}
		w.o.label("hist:two-creates-in-one-mutation")
		if f := w.judge(step, op, "create-two", reject, outs); f != nil || reject {
			if reject {
				w.o.rejected11++
				w.o.label("hist:1-1-second-holder-rejected")
			}
			return f
		}
		for i, name := range names {
			d := &mdoc{id: ids[0][i], name: name, col: col, n: nval, live: true}
			if d.id == "" || (len(ids) > 1 && ids[1][i] != d.id) {
				hx.Harnessf("create of two documents: ids %v", ids)
			}
			if setL {
				d.fk = lval
			}
			w.docs[col] = append(w.docs[col], d)
			w.byID[d.id] = d
		}
	case "update":
		lv := w.live(col)
		if len(lv) == 0 {
			w.o.label("op-skipped-no-live-doc")
			return nil
		}
		d := lv[op.Doc%len(lv)]
		setN := op.SetN || !setL
		var fields []string
		if setN {
			fields = append(fields, "n: "+intLit(nval))
		}
		if setL {
			fields = append(fields, fkField+": "+strLit(lval))
		}
		reject := setL && w.conflict11(rel, d, lval)
		var outs []outcome
		for _, n := range w.nodes() {
			if op.API {
				outs = append(outs, apiUpdate(n, col, d.id, setN, nval, setL, fkField, lval))
			} else {
				q := fmt.Sprintf(`mutation { update_%s(docID: %q, input: {%s}) { _docID } }`, colName(col), d.id, strings.Join(fields, ", "))
				outs = append(outs, gqlWrite(n, q, ""))
			}
		}
		if f := w.judge(step, op, "update", reject, outs); f != nil || reject {
			if reject {
				w.o.rejected11++
				w.o.label("hist:1-1-second-holder-rejected")
			}
			return f
		}
		if setN {
			d.n = nval
		}
		if setL {
			switch {
			case lval == nil && d.fk != nil:
				w.o.label("hist:unlink")
			case lval != nil && d.fk != nil && *lval != *d.fk:
				w.o.label("hist:relink")
			case lval != nil && d.fk != nil && *lval == *d.fk:
				w.o.label("hist:rewrite-same-link")
			case lval != nil && d.fk == nil:
				w.o.label("hist:late-link")
			}
			d.fk = lval
		}
	case "updn":
		var match []*mdoc
		for _, d := range w.live(col) {
			if d.n != nil && *d.n == op.Doc {
				match = append(match, d)
			}
		}
		var input string
		reject := false
		if rel >= 0 && setL {
			input = fkField + ": " + strLit(lval)
			if lval != nil && !w.tp.Rels[rel].Many {
				// the documents are updated one after the other inside one transaction:
				// the second one to receive the link, or the first if somebody else has it, must be refused
				if len(match) >= 2 {
					reject = true
				} else if len(match) == 1 {
					reject = w.conflict11(rel, match[0], lval)
				}
			}
		} else {
			input = "n: " + intLit(nval)
			setL = false
		}
		q := fmt.Sprintf(`mutation { update_%s(filter: {n: {_eq: %d}}, input: {%s}) { _docID } }`, colName(col), op.Doc, input)
		var outs []outcome
		for _, n := range w.nodes() {
			outs = append(outs, gqlWrite(n, q, ""))
		}
		w.o.label(fmt.Sprintf("hist:update-by-filter-%s", sizeClass(len(match))))
		if f := w.judge(step, op, "update-by-filter", reject, outs); f != nil || reject {
			if reject {
				w.o.rejected11++
				w.o.label("hist:1-1-second-holder-rejected")
			}
			return f
		}
		for _, d := range match {
			if setL {
				d.fk = lval
			} else {
				d.n = nval
			}
		}
	case "delete":
		lv := w.live(col)
		if len(lv) == 0 {
			w.o.label("op-skipped-no-live-doc")
			return nil
		}
		d := lv[op.Doc%len(lv)]
		var outs []outcome
		for _, n := range w.nodes() {
			if op.API {
				outs = append(outs, apiDelete(n, col, d.id))
			} else {
				q := fmt.Sprintf(`mutation { delete_%s(docID: %q) { _docID } }`, colName(col), d.id)
				outs = append(outs, gqlWrite(n, q, ""))
			}
		}
		if f := w.judge(step, op, "delete", false, outs); f != nil {
			return f
		}
		d.live = false
		for k, r := range w.tp.Rels {
			if r.To == col && len(w.holders(k, d.id)) > 0 {
				w.o.label("hist:delete-related-side-with-holders")
			}
			if r.From == col && d.fk != nil {
				w.o.label("hist:delete-holder-of-link")
			}
		}
	default:
		hx.Harnessf("unknown op kind %q", op.K)
	}
	return nil
}

func sizeClass(n int) string {
	switch {
	case n == 0:
		return "0"
	case n == 1:
		return "1"
	}
	return "many"
}

func (w *world) judge(step int, op Op, what string, reject bool, outs []outcome) *hx.Failure {
	via := "gql"
	if op.API {
		via = "api"
	}
	for i, o := range outs {
		if strings.HasPrefix(o.err, "PANIC") {
			return hx.Failf("C09/write/panic/"+what, "step %d %s (%s node) panicked: %s", step, what, nodeName(i), o.err)
		}
		if reject && o.err == "" {
			return hx.Failf("C09/one-one/second-holder-accepted/"+what,
				"step %d: %s via %s on the %s node was accepted although another live document already holds the same one-to-one link (op %+v)",
				step, what, via, nodeName(i), op)
		}
		if !reject && o.err != "" {
			return hx.Failf("C09/write/unexpected-error/"+what,
				"step %d: %s via %s on the %s node failed: %s (op %+v)", step, what, via, nodeName(i), o.err, op)
		}
		if reject && !strings.Contains(o.err, "already linked") {
			return hx.Failf("C09/one-one/rejected-for-other-reason/"+what,
				"step %d: %s via %s on the %s node was refused, but not by the one-to-one check: %s", step, what, via, nodeName(i), o.err)
		}
	}
	return nil
}

func gqlWrite(n *hx.Node, q, key string) outcome {
	r := n.Exec(q)
	if r.Panic != "" {
		return outcome{err: "PANIC " + r.Panic}
	}
	if !r.OK() {
		return outcome{err: r.Err()}
	}
	out := outcome{}
	if key != "" {
		rows := r.Rows(key)
		if len(rows) == 1 {
			out.id, _ = rows[0]["_docID"].(string)
		}
	}
	return out
}

func guardAPI(f func() error) (out outcome) {
	defer func() {
		if p := recover(); p != nil {
			out = outcome{err: fmt.Sprintf("PANIC %v", p)}
		}
	}()
	if err := f(); err != nil {
		return outcome{err: err.Error()}
	}
	return outcome{}
}

func apiCreate(n *hx.Node, col int, js string) outcome {
	id := ""
	o := guardAPI(func() error {
		cl, err := n.DB.GetCollectionByName(n.Ctx, colName(col))
		if err != nil {
			hx.Harnessf("collection: %v", err)
		}
		doc, err := client.NewDocFromJSON([]byte(js), cl.Definition())
		if err != nil {
			hx.Harnessf("generator produced a document the input path rejects: %s: %v", js, err)
		}
		id = doc.ID().String()
		return cl.Create(n.Ctx, doc)
	})
	o.id = id
	return o
}

func apiUpdate(n *hx.Node, col int, id string, setN bool, nval *int, setL bool, fkField string, lval *string) outcome {
	return guardAPI(func() error {
		cl, err := n.DB.GetCollectionByName(n.Ctx, colName(col))
		if err != nil {
			hx.Harnessf("collection: %v", err)
		}
		did, err := client.NewDocIDFromString(id)
		if err != nil {
			hx.Harnessf("docID: %v", err)
		}
		doc, err := cl.Get(n.Ctx, did, false)
		if err != nil {
			return err
		}
		if setN {
			var v any
			if nval != nil {
				v = int64(*nval)
			}
			if err := doc.Set("n", v); err != nil {
				hx.Harnessf("doc.Set n: %v", err)
			}
		}
		if setL {
			var v any
			if lval != nil {
				v = *lval
			}
			if err := doc.Set(fkField, v); err != nil {
				hx.Harnessf("doc.Set %s: %v", fkField, err)
			}
		}
		return cl.Update(n.Ctx, doc)
	})
}

func apiDelete(n *hx.Node, col int, id string) outcome {
	return guardAPI(func() error {
		cl, err := n.DB.GetCollectionByName(n.Ctx, colName(col))
		if err != nil {
			hx.Harnessf("collection: %v", err)
		}
		did, err := client.NewDocIDFromString(id)
		if err != nil {
			hx.Harnessf("docID: %v", err)
		}
		_, err = cl.Delete(n.Ctx, did)
		return err
	})
}

// ---------------------------------------------------------------- state after a write

func numOf(v any) *int {
	n, ok := v.(json.Number)
	if !ok {
		return nil
	}
	i, err := strconv.Atoi(n.String())
	if err != nil {
		return nil
	}
	return &i
}

func strOf(v any) *string {
	s, ok := v.(string)
	if !ok {
		return nil
	}
	return &s
}

func (w *world) nameOf(id string) string {
	if d := w.byID[id]; d != nil {
		return d.name
	}
	if id == danglingID {
		return "<never-created>"
	}
	return id
}

// checkState compares every collection's live documents (own fields and foreign key) with the model
// and asserts that no one-to-one target is held twice.
func (w *world) checkState(step int, twinToo bool) *hx.Failure {
	for ni, n := range w.nodes() {
		if ni == 1 && !twinToo {
			continue
		}
		for col := 0; col < w.tp.NCols; col++ {
			rel := w.tp.heldBy(col)
			sel := "_docID name n"
			if rel >= 0 {
				sel += fmt.Sprintf(" r%d_id", rel)
			}
			q := fmt.Sprintf(`query { %s { %s } }`, colName(col), sel)
			r := n.Exec(q)
			if !r.OK() {
				return hx.Failf("C09/state/query-error", "step %d: %s on the %s node: %s %s", step, q, nodeName(ni), r.Err(), r.Panic)
			}
			got := map[string]string{}
			held := map[string]string{}
			for _, row := range r.Rows(colName(col)) {
				id, _ := row["_docID"].(string)
				desc := "n=" + intLit(numOf(row["n"]))
				if rel >= 0 {
					fk := strOf(row[fmt.Sprintf("r%d_id", rel)])
					desc += " fk=" + strLit(fk)
					if fk != nil && !w.tp.Rels[rel].Many {
						if other, dup := held[*fk]; dup {
							return hx.Failf("C09/one-one/held-twice",
								"step %d (%s node): one-to-one target %s is held by both %s and %s", step, nodeName(ni), w.nameOf(*fk), w.nameOf(other), w.nameOf(id))
						}
						held[*fk] = id
					}
				}
				if _, dup := got[id]; dup {
					return hx.Failf("C09/state/duplicate-row", "step %d: %s returned %s twice", step, q, w.nameOf(id))
				}
				got[id] = desc
			}
			want := map[string]string{}
			for _, d := range w.live(col) {
				desc := "n=" + intLit(d.n)
				if rel >= 0 {
					desc += " fk=" + strLit(d.fk)
				}
				want[d.id] = desc
			}
			if diff := mapDiff(w, want, got); diff != "" {
				return hx.Failf("C09/state/differs-from-model", "step %d (%s node) collection %s after op %+v: %s", step, nodeName(ni), colName(col), w.c.Ops[step], diff)
			}
		}
	}
	return nil
}

func mapDiff(w *world, want, got map[string]string) string {
	var out []string
	keys := map[string]bool{}
	for k := range want {
		keys[k] = true
	}
	for k := range got {
		keys[k] = true
	}
	var ks []string
	for k := range keys {
		ks = append(ks, k)
	}
	sort.Strings(ks)
	for _, k := range ks {
		a, okA := want[k]
		b, okB := got[k]
		switch {
		case !okB:
			out = append(out, fmt.Sprintf("%s missing (model: %s)", w.nameOf(k), a))
		case !okA:
			out = append(out, fmt.Sprintf("%s unexpected (%s)", w.nameOf(k), b))
		case a != b:
			out = append(out, fmt.Sprintf("%s is %s, model says %s", w.nameOf(k), b, a))
		}
	}
	return strings.Join(out, "; ")
}

// ---------------------------------------------------------------- membership (oracle clause 1)

type pairSet map[[2]string]int

func (p pairSet) add(target, holder string) { p[[2]string{target, holder}]++ }

func (w *world) pairDiff(want, got pairSet) (string, string) {
	var missing, extra, dup []string
	for k := range want {
		if got[k] == 0 {
			missing = append(missing, w.nameOf(k[1])+"->"+w.nameOf(k[0]))
		}
	}
	for k, n := range got {
		if want[k] == 0 {
			extra = append(extra, w.nameOf(k[1])+"->"+w.nameOf(k[0]))
		} else if n > 1 {
			dup = append(dup, w.nameOf(k[1])+"->"+w.nameOf(k[0]))
		}
	}
	sort.Strings(missing)
	sort.Strings(extra)
	sort.Strings(dup)
	switch {
	case len(missing) > 0 && len(extra) > 0:
		return "wrong", fmt.Sprintf("missing %v, extra %v", missing, extra)
	case len(missing) > 0:
		return "missing", fmt.Sprintf("missing %v", missing)
	case len(extra) > 0:
		return "extra", fmt.Sprintf("extra %v", extra)
	case len(dup) > 0:
		return "duplicate", fmt.Sprintf("listed twice %v", dup)
	}
	return "", ""
}

func (w *world) checkMembership(step int, full bool) *hx.Failure {
	for ni, n := range w.nodes() {
		if ni == 1 && !full {
			continue
		}
		for k, r := range w.tp.Rels {
			H, T := colName(r.From), colName(r.To)
			// model: link pairs of live holders; the related-object shapes only see live targets
			wantID := pairSet{}
			wantObj := pairSet{}
			for _, d := range w.live(r.From) {
				if d.fk != nil {
					wantID.add(*d.fk, d.id)
					if w.target(d) != nil {
						wantObj.add(*d.fk, d.id)
					}
				}
			}
			fail := func(shape, q string, want, got pairSet) *hx.Failure {
				if kind, msg := w.pairDiff(want, got); kind != "" {
					return hx.Failf(fmt.Sprintf("C09/member/%s/%s/%s", relKind(r), shape, kind),
						"step %d (%s node) relation %s.r%d->%s: %s: %s", step, nodeName(ni), H, k, T, q, msg)
				}
				return nil
			}
			// shape (a): from the related side
			qa := fmt.Sprintf(`query { %s { _docID b%d { _docID } } }`, T, k)
			ra := n.Exec(qa)
			if !ra.OK() {
				return hx.Failf("C09/member/query-error", "step %d (%s node): %s: %s %s", step, nodeName(ni), qa, ra.Err(), ra.Panic)
			}
			gotA := pairSet{}
			for _, row := range ra.Rows(T) {
				tid, _ := row["_docID"].(string)
				switch v := row[fmt.Sprintf("b%d", k)].(type) {
				case []any:
					for _, x := range v {
						if m, ok := x.(map[string]any); ok {
							hid, _ := m["_docID"].(string)
							gotA.add(tid, hid)
						}
					}
				case map[string]any:
					hid, _ := v["_docID"].(string)
					gotA.add(tid, hid)
				}
			}
			if f := fail("from-related-side", qa, wantObj, gotA); f != nil {
				return f
			}
			// shape (b): from the holder side, by id field and by object
			qb := fmt.Sprintf(`query { %s { _docID r%d_id r%d { _docID } } }`, H, k, k)
			rb := n.Exec(qb)
			if !rb.OK() {
				return hx.Failf("C09/member/query-error", "step %d (%s node): %s: %s %s", step, nodeName(ni), qb, rb.Err(), rb.Panic)
			}
			gotID, gotObj := pairSet{}, pairSet{}
			for _, row := range rb.Rows(H) {
				hid, _ := row["_docID"].(string)
				if fk := strOf(row[fmt.Sprintf("r%d_id", k)]); fk != nil {
					gotID.add(*fk, hid)
				}
				if m, ok := row[fmt.Sprintf("r%d", k)].(map[string]any); ok {
					tid, _ := m["_docID"].(string)
					gotObj.add(tid, hid)
				}
			}
			if f := fail("holder-id-field", qb, wantID, gotID); f != nil {
				return f
			}
			if f := fail("holder-object", qb, wantObj, gotObj); f != nil {
				return f
			}
			if !full {
				continue
			}
			// shape (c): filter on the foreign key, for every id that is or was a target and the dangling one
			ids := []string{danglingID}
			for _, d := range w.docs[r.To] {
				ids = append(ids, d.id)
			}
			wantC, gotC := pairSet{}, pairSet{}
			for _, id := range ids {
				for _, d := range w.holders(k, id) {
					wantC.add(id, d.id)
				}
				qc := fmt.Sprintf(`query { %s(filter: {r%d_id: {_eq: %q}}) { _docID } }`, H, k, id)
				rc := n.Exec(qc)
				if !rc.OK() {
					return hx.Failf("C09/member/query-error", "step %d (%s node): %s: %s %s", step, nodeName(ni), qc, rc.Err(), rc.Panic)
				}
				for _, row := range rc.Rows(H) {
					hid, _ := row["_docID"].(string)
					gotC.add(id, hid)
				}
			}
			if f := fail("holder-id-filter", fmt.Sprintf(`%s(filter: {r%d_id: {_eq: <each id>}})`, H, k), wantC, gotC); f != nil {
				return f
			}
			// null filter: holders without link
			qn := fmt.Sprintf(`query { %s(filter: {r%d_id: {_eq: null}}) { _docID } }`, H, k)
			rn := n.Exec(qn)
			if !rn.OK() {
				return hx.Failf("C09/member/query-error", "step %d (%s node): %s: %s %s", step, nodeName(ni), qn, rn.Err(), rn.Panic)
			}
			wantN, gotN := pairSet{}, pairSet{}
			for _, d := range w.live(r.From) {
				if d.fk == nil {
					wantN.add("null", d.id)
				}
			}
			for _, row := range rn.Rows(H) {
				hid, _ := row["_docID"].(string)
				gotN.add("null", hid)
			}
			if f := fail("holder-id-filter-null", qn, wantN, gotN); f != nil {
				return f
			}
			if !r.Many {
				// one-to-one: the secondary side exposes b<k>_id as well
				qd := fmt.Sprintf(`query { %s { _docID b%d_id } }`, T, k)
				rd := n.Exec(qd)
				if !rd.OK() {
					return hx.Failf("C09/member/query-error", "step %d (%s node): %s: %s %s", step, nodeName(ni), qd, rd.Err(), rd.Panic)
				}
				gotD := pairSet{}
				for _, row := range rd.Rows(T) {
					tid, _ := row["_docID"].(string)
					if hid := strOf(row[fmt.Sprintf("b%d_id", k)]); hid != nil {
						gotD.add(tid, *hid)
					}
				}
				if f := fail("secondary-id-field", qd, wantObj, gotD); f != nil {
					return f
				}
			}
		}
	}
	return nil
}

// checkSecondaryIDFilter: on the secondary side of a one-to-one relation b<k>_id reads as the holder's
// docID, so filtering on it must select the same document.
func (w *world) checkSecondaryIDFilter() *hx.Failure {
	for ni, n := range w.nodes() {
		for k, r := range w.tp.Rels {
			if r.Many {
				continue
			}
			T := colName(r.To)
			wantE, gotE := pairSet{}, pairSet{}
			for _, d := range w.live(r.From) {
				if t := w.target(d); t != nil {
					wantE.add(t.id, d.id)
				}
				qe := fmt.Sprintf(`query { %s(filter: {b%d_id: {_eq: %q}}) { _docID } }`, T, k, d.id)
				re := n.Exec(qe)
				if !re.OK() {
					return hx.Failf("C09/member/query-error", "end (%s node): %s: %s %s", nodeName(ni), qe, re.Err(), re.Panic)
				}
				for _, row := range re.Rows(T) {
					tid, _ := row["_docID"].(string)
					gotE.add(tid, d.id)
				}
			}
			if kind, msg := w.pairDiff(wantE, gotE); kind != "" {
				sig := fmt.Sprintf("C09/member/%s/secondary-id-filter/%s", relKind(r), kind)
				if len(gotE) == 0 {
					// the filter on the secondary side's id field matches nothing at all
					sig = sigSecondary
				}
				return hx.Failf(sig, "end (%s node) relation %s.r%d->%s: %s(filter: {b%d_id: {_eq: <each holder>}}) although %s { b%d_id } reads those ids: %s",
					nodeName(ni), colName(r.From), k, T, T, k, T, k, msg)
			}
		}
	}
	return nil
}

func relKind(r relDef) string {
	s := "1-1"
	if r.Many {
		s = "1-n"
	}
	if r.From == r.To {
		s += "-self"
	}
	return s
}
