package c09

import (
	"fmt"
	"strings"

	"pgregory.net/rapid"
)

// relDef is one relation: documents of collection From hold the foreign key
// (field r<k>_id, object field r<k>) pointing at a document of collection To,
// which sees them through b<k> (a list when Many, a single object otherwise).
type relDef struct {
	From, To int
	Many     bool
}

type topoDef struct {
	Name  string
	NCols int
	Rels  []relDef
}

var topos = []topoDef{
	{Name: "1n", NCols: 2, Rels: []relDef{{From: 1, To: 0, Many: true}}},
	{Name: "11", NCols: 2, Rels: []relDef{{From: 1, To: 0, Many: false}}},
	{Name: "self", NCols: 1, Rels: []relDef{{From: 0, To: 0, Many: true}}},
	{Name: "self11", NCols: 1, Rels: []relDef{{From: 0, To: 0, Many: false}}},
	{Name: "hop2", NCols: 3, Rels: []relDef{{From: 1, To: 0, Many: true}, {From: 2, To: 1, Many: true}}},
	{Name: "hop2o", NCols: 3, Rels: []relDef{{From: 1, To: 0, Many: true}, {From: 2, To: 1, Many: false}}},
}

func topoByName(n string) topoDef {
	for _, t := range topos {
		if t.Name == n {
			return t
		}
	}
	return topos[0]
}

// heldBy returns the relation whose foreign key lives in col, or -1.
func (t topoDef) heldBy(col int) int {
	for k, r := range t.Rels {
		if r.From == col {
			return k
		}
	}
	return -1
}

// Link says what an operation does with the foreign key of the written document.
type Link struct {
	// Mode: 0 leave alone (create: unset), 1 point at document Tgt (modulo the documents
	// ever created in the target collection, deleted ones included), 2 null, 3 a docID that
	// never existed.
	Mode int `json:"mode"`
	Tgt  int `json:"tgt,omitempty"`
}

// Op is one write of the history.
type Op struct {
	// K: create | create2 (two documents with the same link in one mutation) | update |
	// updn (update by filter n==Doc) | delete
	K   string `json:"k"`
	Col int    `json:"col"`
	// Doc selects the live document (modulo the live ones); for updn it is the n value filtered on.
	Doc int `json:"doc,omitempty"`
	// SetN: write n. NNull: the written n is null.
	SetN  bool `json:"setn,omitempty"`
	NNull bool `json:"nnull,omitempty"`
	N     int  `json:"n,omitempty"`
	Link  Link `json:"link"`
	// API: go through the collection API instead of a GraphQL mutation.
	API bool `json:"api,omitempty"`
}

// Query is one read that reaches through a relation.
type Query struct {
	// K: hf tf hor tor horder torder agg sub tfsub hopdown hopup hoprender cnthf cnttf;
	// tfcnt = related-side documents filtered through the relation, selecting the COUNT of all their holders;
	// hfid = holders filtered on the related document's _docID only (H(filter: {r: {_docID: {_eq: id}}})),
	// id = document V of the related collection (modulo all ever created + 1, the extra one never existed)
	K   string `json:"k"`
	Rel int    `json:"rel"`
	// Op/V: the condition on the related document's n.
	Op string `json:"op"`
	V  int    `json:"v"`
	// Own: also a condition Op2/V2 on the queried document's own n (and-ed).
	Own bool   `json:"own,omitempty"`
	Op2 string `json:"op2,omitempty"`
	V2  int    `json:"v2,omitempty"`
	// Render: select the related object(s) too (changes the join's skip-child path).
	Render bool `json:"render,omitempty"`
	Desc   bool `json:"desc,omitempty"`
	// OwnOrder: 0 none, 1 order by own n ASC, 2 DESC (for hf/tf).
	OwnOrder int `json:"ownorder,omitempty"`
	// IDMode: 0 no docID argument on the top-level selection, 1 `docID: "<id>"`, 2 `docID: [<ids>]`.
	// IDs select documents of the queried collection modulo (all ever created + 1); the extra slot
	// is a docID that never existed. Duplicates are dropped, the list is never empty.
	IDMode int   `json:"idmode,omitempty"`
	IDs    []int `json:"ids,omitempty"`
	// NameOp/Names (hf tf cnthf cnttf): a SECOND condition inside the relation block, on the related
	// document's immutable unique name: "" none, _ne _eq (first name) or _nin _in (all names). Names
	// select documents of the related collection modulo all ever created there. The related document
	// must satisfy both conditions at once.
	NameOp string `json:"nameop,omitempty"`
	Names  []int  `json:"names,omitempty"`
}

// Case is one generated history plus the reads made at its end.
type Case struct {
	Topo string `json:"topo"`
	// DeclRev: declare the types in reverse order in the SDL.
	DeclRev bool `json:"declrev,omitempty"`
	// IdxN[c]: secondary index on collection c's scalar n (what lets the planner invert a join).
	IdxN []bool `json:"idxn"`
	// IdxFK[k]: secondary index on the foreign key of relation k.
	IdxFK []bool `json:"idxfk"`
	Ops   []Op   `json:"ops"`
	// Queries run at the end of the history; membership is checked after every write.
	Queries []Query `json:"queries"`
	// Avoid: generator switches for known findings are on (their triggers are not generated).
	Avoid bool `json:"avoid,omitempty"`
}

func (c Case) anyIndex() bool {
	t := topoByName(c.Topo)
	for i := 0; i < t.NCols; i++ {
		if c.idxN(i) {
			return true
		}
	}
	for k := range t.Rels {
		if c.idxFK(k) {
			return true
		}
	}
	return false
}

func (c Case) idxN(col int) bool  { return col < len(c.IdxN) && c.IdxN[col] }
func (c Case) idxFK(rel int) bool { return rel < len(c.IdxFK) && c.IdxFK[rel] }

// sdl renders the schema; withIdx=false gives the twin without any secondary index.
func (c Case) sdl(withIdx bool) string {
	t := topoByName(c.Topo)
	var types []string
	for i := 0; i < t.NCols; i++ {
		var b strings.Builder
		fmt.Fprintf(&b, "type T%d {\n  name: String\n  n: Int", i)
		if withIdx && c.idxN(i) {
			b.WriteString(" @index")
		}
		b.WriteString("\n")
		for k, r := range t.Rels {
			if r.From == i {
				fmt.Fprintf(&b, "  r%d: T%d", k, r.To)
				if !r.Many {
					b.WriteString(" @primary")
				}
				if withIdx && c.idxFK(k) {
					b.WriteString(" @index")
				}
				b.WriteString("\n")
			}
		}
		for k, r := range t.Rels {
			if r.To == i {
				if r.Many {
					fmt.Fprintf(&b, "  b%d: [T%d]\n", k, r.From)
				} else {
					fmt.Fprintf(&b, "  b%d: T%d\n", k, r.From)
				}
			}
		}
		b.WriteString("}\n")
		types = append(types, b.String())
	}
	if c.DeclRev {
		for i, j := 0, len(types)-1; i < j; i, j = i+1, j-1 {
			types[i], types[j] = types[j], types[i]
		}
	}
	return strings.Join(types, "\n")
}

var posOps = []string{"_eq", "_gt", "_ge", "_lt", "_le", "_in"}
var allOps = []string{"_eq", "_gt", "_ge", "_lt", "_le", "_in", "_ne", "_nin"}

const nPool = 4 // n values are 0..nPool-1

func drawCase(t *rapid.T, avoid bool) Case {
	tp := rapid.SampledFrom(topos).Draw(t, "topo")
	c := Case{Topo: tp.Name, Avoid: avoid}
	c.DeclRev = rapid.Bool().Draw(t, "declrev")
	// indexes: none at all in an eighth of the cases; otherwise the index on n (what inverts joins)
	// with probability 2/3 per type and the one on the foreign key with probability 1/2 per relation
	noIdx := rapid.IntRange(0, 7).Draw(t, "noidx") == 0
	for i := 0; i < tp.NCols; i++ {
		c.IdxN = append(c.IdxN, !noIdx && rapid.IntRange(0, 2).Draw(t, "idxn") > 0)
	}
	for range tp.Rels {
		c.IdxFK = append(c.IdxFK, !noIdx && rapid.Bool().Draw(t, "idxfk"))
	}
	nops := rapid.IntRange(3, 22).Draw(t, "nops")
	created := make([]int, tp.NCols)
	for i := 0; i < nops; i++ {
		var op Op
		col := rapid.IntRange(0, tp.NCols-1).Draw(t, "col")
		kind := rapid.IntRange(0, 19).Draw(t, "kind")
		// creation dominates while a collection is small, so that parents with several
		// children and parents with none both exist; later relink/unlink/delete take over
		switch {
		case created[col] < 2 || kind < 7:
			op.K = "create"
			created[col]++
		case kind == 7:
			// two documents in one mutation, both with the same link
			op.K = "create2"
			created[col] += 2
		case kind < 14:
			op.K = "update"
		case kind < 16:
			op.K = "updn"
		default:
			op.K = "delete"
		}
		op.Col = col
		op.Doc = rapid.IntRange(0, 5).Draw(t, "doc")
		op.API = rapid.IntRange(0, 3).Draw(t, "api") == 0
		switch op.K {
		case "create", "create2":
			op.SetN = true
			op.NNull = rapid.IntRange(0, 9).Draw(t, "nnull") == 0
			op.N = rapid.IntRange(0, nPool-1).Draw(t, "n")
			op.Link = drawLink(t, 7, 0)
		case "update":
			op.SetN = rapid.IntRange(0, 2).Draw(t, "setn") == 0
			op.NNull = rapid.IntRange(0, 9).Draw(t, "nnull") == 0
			op.N = rapid.IntRange(0, nPool-1).Draw(t, "n")
			op.Link = drawLink(t, 5, 2)
			if tp.heldBy(col) < 0 {
				op.SetN = true
			}
		case "updn":
			op.Doc = rapid.IntRange(0, nPool-1).Draw(t, "nsel")
			op.Link = drawLink(t, 7, 1)
			if op.Link.Mode == 0 {
				op.Link.Mode = 1
			}
		}
		if avoid && rec.IsKnown(sigMinMax) {
			// switch of sigMinMax: no null n, so that _min/_max over a list relation never meets one
			op.NNull = false
		}
		c.Ops = append(c.Ops, op)
	}
	nq := rapid.IntRange(2, 7).Draw(t, "nq")
	for i := 0; i < nq; i++ {
		c.Queries = append(c.Queries, drawQuery(t, tp, c))
	}
	return c
}

// drawLink: linkWeight tenths point at an existing (or deleted) document, nullWeight tenths unlink,
// one tenth names a never-created docID, the rest leaves the field alone.
func drawLink(t *rapid.T, linkWeight, nullWeight int) Link {
	m := rapid.IntRange(0, 9).Draw(t, "lmode")
	switch {
	case m < linkWeight:
		return Link{Mode: 1, Tgt: rapid.IntRange(0, 4).Draw(t, "tgt")}
	case m < linkWeight+nullWeight:
		return Link{Mode: 2}
	case m == linkWeight+nullWeight:
		return Link{Mode: 3}
	default:
		return Link{Mode: 0}
	}
}

func drawQuery(t *rapid.T, tp topoDef, c Case) Query {
	kinds := []string{"hf", "hf", "tf", "tf", "tf", "hor", "tor", "horder", "horder", "torder", "torder", "agg", "agg", "sub", "tfsub", "cnthf", "cnttf", "hfid", "hfid", "tfcnt", "tfcnt"}
	if len(tp.Rels) > 1 {
		kinds = append(kinds, "hopdown", "hopdown", "hopup", "hopup", "hoprender")
	}
	q := Query{K: rapid.SampledFrom(kinds).Draw(t, "qk")}
	q.Rel = rapid.IntRange(0, len(tp.Rels)-1).Draw(t, "qrel")
	ops := allOps
	q.Op = rapid.SampledFrom(ops).Draw(t, "qop")
	q.V = rapid.IntRange(0, nPool-1).Draw(t, "qv")
	q.Own = rapid.IntRange(0, 2).Draw(t, "qown") == 0
	q.Op2 = rapid.SampledFrom(posOps).Draw(t, "qop2")
	q.V2 = rapid.IntRange(0, nPool-1).Draw(t, "qv2")
	q.Render = rapid.Bool().Draw(t, "qrender")
	q.Desc = rapid.Bool().Draw(t, "qdesc")
	if rapid.IntRange(0, 3).Draw(t, "qoo") == 0 {
		q.OwnOrder = rapid.IntRange(1, 2).Draw(t, "qood")
	}
	switch rapid.IntRange(0, 9).Draw(t, "qidmode") {
	case 0, 1:
		q.IDMode = 1
		q.IDs = []int{rapid.IntRange(0, 6).Draw(t, "qid")}
	case 2, 3:
		q.IDMode = 2
		q.IDs = rapid.SliceOfN(rapid.IntRange(0, 6), 1, 3).Draw(t, "qids")
	}
	q.K = normalKind(q.K, tp, q.Rel)
	if q.K == "tfcnt" && c.Avoid && rec.IsKnown(sigCountNextToFilter) {
		q.K = "cnttf" // switch of the listed finding
	}
	constrainQuery(&q, tp, c)
	q.K = normalKind(q.K, tp, q.Rel)
	switch q.K {
	case "hf", "tf", "cnthf", "cnttf":
		if rapid.IntRange(0, 2).Draw(t, "qname") == 0 {
			// two conditions on the related document: the one on n (possibly index-served, positive so
			// that the reference semantics is defined) and one on its name
			q.Op = toPos(q.Op)
			q.NameOp = rapid.SampledFrom([]string{"_ne", "_nin", "_nin", "_in", "_eq"}).Draw(t, "qnameop")
			q.Names = rapid.SliceOfN(rapid.IntRange(0, 7), 1, 3).Draw(t, "qnames")
		}
	}
	return q
}

func toPos(op string) string {
	switch op {
	case "_ne":
		return "_eq"
	case "_nin":
		return "_in"
	}
	return op
}

// constrainQuery applies the generator switches of the known findings.
//
// Always (while the finding is listed): request shapes in which a listed defect would show but
// could not be told apart from a new one (counts, two hops, filtered sub-selections).
// With c.Avoid (half of the cases while anything is listed): every trigger of every listed
// finding, so that the rest of the oracle is exercised on cases that are not cut short.
func constrainQuery(q *Query, tp topoDef, c Case) {
	r := tp.Rels[q.Rel%len(tp.Rels)]
	known := func(s string) bool { return rec.IsKnown(s) }
	invDefect := known(sigStop) || known(sigOwnDrop) || known(sigLookup) || known(sigNegDrop) || known(sigOrderDrop)
	switch q.K {
	case "cnthf", "cnttf":
		// a bare number cannot be attributed to a listed defect
		if invDefect {
			q.Own = false
			q.Op = toPos(q.Op)
			if q.K == "cnthf" && c.idxN(r.To) && (known(sigStop)) {
				q.K = "cnttf"
			}
		}
	case "tfsub":
		if known(sigNegDrop) {
			q.Op = toPos(q.Op)
		}
	case "hopdown", "hopup":
		if len(tp.Rels) > 1 {
			if invDefect {
				q.Op = toPos(q.Op)
			}
			if q.K == "hopdown" && c.idxN(0) && (known(sigStop) || known(sigOwnDrop)) {
				q.K = "hopup"
			}
			if q.K == "hopup" && c.idxN(0) && known(sigLookup) {
				q.Own = false
			}
		}
	}
	if !c.Avoid {
		return
	}
	if c.anyIndex() && known(sigInPanic) {
		if q.Op == "_in" {
			q.Op = "_eq"
		}
		if q.Op == "_nin" {
			q.Op = "_ne"
		}
		if q.Op2 == "_in" {
			q.Op2 = "_ge"
		}
	}
	alt := "agg"
	if !r.Many {
		alt = "tf"
	}
	switch q.K {
	case "horder":
		if c.idxN(r.To) && (known(sigOrderDrop) || known(sigStop) || (q.Own && known(sigOwnDrop))) {
			q.K = alt
		}
	case "torder":
		if c.idxN(r.From) && (known(sigOrderDrop) || (c.idxN(r.To) && known(sigLookup))) {
			q.K = alt
		}
	case "hf":
		if c.idxN(r.To) {
			if known(sigStop) {
				q.K = "tf"
			} else {
				if known(sigOwnDrop) {
					q.Own = false
				}
				if known(sigNegDrop) {
					q.Op = toPos(q.Op)
				}
			}
		}
	}
	if q.K == "tf" && c.idxN(r.From) {
		if known(sigNegDrop) {
			q.Op = toPos(q.Op)
		}
		if c.idxN(r.To) && known(sigLookup) {
			q.Own = false
			q.OwnOrder = 0
		}
	}
}

// normalKind maps a request kind to one that exists for the relation: two-hop kinds need two
// relations, aggregates and filtered sub-selections need a list relation, and ordering through a
// list relation is documented as not allowed.
func normalKind(kind string, tp topoDef, rel int) string {
	r := tp.Rels[rel%len(tp.Rels)]
	if len(tp.Rels) < 2 {
		switch kind {
		case "hopdown":
			kind = "hf"
		case "hopup":
			kind = "tf"
		case "hoprender":
			kind = "agg"
		}
	}
	if !r.Many {
		switch kind {
		case "agg", "sub", "tfsub", "tfcnt":
			kind = "tf"
		}
	} else if kind == "torder" {
		kind = "horder"
	}
	return kind
}
