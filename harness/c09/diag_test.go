package c09

import (
	"encoding/json"
	"sort"
	"strconv"
	"strings"
)

// Signatures of the listed findings (see known_findings.d/C09.json). Each diagnoser below decides
// whether a concrete discrepancy is fully explained by the listed findings; it does so by predicting
// what the pinned implementation returns with exactly the listed defects active and comparing that
// prediction with the observed rows. Anything else keeps the generic signature.
const (
	// inverted join entered from the foreign-key side: iteration ends at the first related
	// document without (matching) holders
	sigStop = "C09/join-inverted/stops-at-related-without-holders"
	// inverted join entered from the foreign-key side: the queried type's own filter is lost
	sigOwnDrop = "C09/join-inverted/own-filter-of-holder-side-dropped"
	// inverted join entered from the related side: the by-docID lookup of the queried document goes
	// through a scan that uses the index chosen for its own filter or own order and returns the
	// first index entry instead
	sigLookup = "C09/join-inverted/lookup-by-id-ignored-by-index-scan"
	// inversion by order drops rows without related document
	sigOrderDrop = "C09/order-inverted/rows-without-related-dropped"
	// inversion by a negated filter operator drops rows without related document
	sigNegDrop = "C09/filter-inverted/negated-operator-rows-without-related-dropped"
	// 1-1 secondary side id filter
	sigSecondary = "C09/member/secondary-id-filter/never-matches"
	// _in on an indexed field: iterator not closed when the scan is restarted or abandoned (also
	// when the inverted join of sigStop abandons it)
	sigInPanic = "C09/panic/in-operator-on-indexed-field-unclosed-iterator"
	// _min/_max over the documents of a list relation: a null value resets the running result
	sigMinMax = "C09/aggregate/min-max-reset-by-null-related-value"
	// the count of holders selected next to a filter through the relation, on an inverted join
	sigCountNextToFilter = "C09/count-of-holders-next-to-relation-filter/inverted/wrong-row-content"
)

// knownSigs are the signatures the diagnosers can produce.
var knownSigs = []string{sigMinMax, sigStop, sigOwnDrop, sigLookup, sigOrderDrop, sigNegDrop, sigSecondary, sigInPanic}

type defects struct {
	stop, ownDrop, orderDrop, negDrop, lookup bool
}

func activeDefects() defects {
	return defects{
		stop:      rec.IsKnown(sigStop),
		ownDrop:   rec.IsKnown(sigOwnDrop),
		orderDrop: rec.IsKnown(sigOrderDrop),
		negDrop:   rec.IsKnown(sigNegDrop),
		lookup:    rec.IsKnown(sigLookup),
	}
}

// indexOrder returns the live documents of col in the order of the ascending index on n:
// by value (null first), ties by docID; reversed when desc.
func (w *world) indexOrder(col int, desc bool) []*mdoc {
	out := append([]*mdoc{}, w.live(col)...)
	sort.SliceStable(out, func(i, j int) bool {
		if c := cmpKey(out[i].n, out[j].n); c != 0 {
			return c < 0
		}
		return out[i].id < out[j].id
	})
	if desc {
		for i, j := 0, len(out)-1; i < j; i, j = i+1, j-1 {
			out[i], out[j] = out[j], out[i]
		}
	}
	return out
}

// matches evaluates any operator; for the negated ones a null value matches iff nullMatches.
func matches(op string, a *int, v int, nullMatches bool) bool {
	switch op {
	case "_ne":
		if a == nil {
			return nullMatches
		}
		return *a != v
	case "_nin":
		if a == nil {
			return nullMatches
		}
		return *a != v && *a != v+1
	}
	return holds(op, a, v)
}

func (w *world) hRow(k int, d *mdoc, render bool) map[string]any {
	row := docRow(d)
	if render {
		rf := "r" + strconv.Itoa(k)
		if t := w.target(d); t != nil {
			row[rf] = docRow(t)
		} else {
			row[rf] = nil
		}
	}
	return row
}

// simulateFromHolder predicts the rows of a request that starts at the foreign-key side and whose join
// was inverted (the related side is scanned first through its index on n), with the given defects active.
func (w *world) simulateFromHolder(b built, plan planInfo, d defects, nullMatches bool) (rows []any, ok bool) {
	q, k := b.q, b.rel
	r := w.tp.Rels[k]
	neg := !posOp(q.Op)
	byFilter := plan.invertedByFilter
	if byFilter && neg && !d.negDrop {
		return nil, false // the reference for negated operators is the twin, not the model
	}
	render := q.Render || b.class == "order-from-holder"
	ownOK := func(h *mdoc) bool { return d.ownDrop || !q.Own || holds(q.Op2, h.n, q.V2) }
	seen := map[string]bool{}
	for _, t := range w.indexOrder(r.To, !byFilter && b.desc) {
		if byFilter && !matches(q.Op, t.n, q.V, nullMatches) {
			continue
		}
		n := 0
		for _, h := range w.holders(k, t.id) {
			if ownOK(h) {
				rows = append(rows, w.hRow(k, h, render))
				seen[h.id] = true
				n++
			}
		}
		if n == 0 && d.stop {
			break
		}
	}
	if !byFilter && !d.orderDrop {
		// a correct order-by-index plan would still return the holders without related document
		for _, h := range w.live(r.From) {
			if w.target(h) == nil && (!q.Own || holds(q.Op2, h.n, q.V2)) {
				rows = append(rows, w.hRow(k, h, render))
			}
		}
	}
	if b.scalar {
		return []any{json.Number(strconv.Itoa(len(rows)))}, true
	}
	if b.idSet != nil {
		// a docID argument restricts the yielded rows
		kept := []any{}
		for _, row := range rows {
			if id, _ := dig(row, "_docID").(string); b.idSet[id] {
				kept = append(kept, row)
			}
		}
		rows = kept
	}
	return rows, true
}

func sameMultiset(a, b []any, drop string) bool {
	m, e := multisetDiff(canonRows(a, drop), canonRows(b, drop))
	return len(m) == 0 && len(e) == 0
}

// explainDiff returns the signature of the listed finding that fully explains why got differs
// from the reference rows, or "".
func (w *world) explainDiff(b built, plan planInfo, planName string, ref, got []any) string {
	if b.class == "aggregate-over-holders" {
		return w.explainMinMax(b, ref, got)
	}
	if planName != "inverted" {
		return ""
	}
	act := activeDefects()
	switch b.class {
	case "filter-from-holder", "count-filter-from-holder", "order-from-holder":
		variants := []bool{true}
		if !posOp(b.q.Op) && plan.invertedByFilter {
			variants = []bool{true, false}
		}
		for _, nm := range variants {
			pred, ok := w.simulateFromHolder(b, plan, act, nm)
			if !ok || !sameMultiset(pred, got, b.dropKey) {
				continue
			}
			// which listed defect is responsible? the first whose removal changes the prediction
			type cand struct {
				on  bool
				off func(defects) defects
				sig string
			}
			for _, c := range []cand{
				{act.stop, func(d defects) defects { d.stop = false; return d }, sigStop},
				{act.ownDrop, func(d defects) defects { d.ownDrop = false; return d }, sigOwnDrop},
				{act.orderDrop && !plan.invertedByFilter, func(d defects) defects { d.orderDrop = false; return d }, sigOrderDrop},
			} {
				if !c.on {
					continue
				}
				alt, ok := w.simulateFromHolder(b, plan, c.off(act), nm)
				if ok && !sameMultiset(alt, pred, b.dropKey) {
					return c.sig
				}
			}
			if act.negDrop && !posOp(b.q.Op) && plan.invertedByFilter {
				// only rows whose holder has no related document can be missing now
				return sigNegDrop
			}
			return ""
		}
		return ""
	case "filter-from-related", "order-from-related":
		r := w.tp.Rels[b.rel]
		ownOrder := b.class == "filter-from-related" && b.q.OwnOrder > 0
		if (b.q.Own || ownOrder) && w.c.idxN(r.To) && act.lookup {
			// every by-docID lookup of a related-side document returns the first entry of the index
			// that serves the own filter / own order: all rows are that one document
			var first *mdoc
			for _, t := range w.indexOrder(r.To, ownOrder && b.q.OwnOrder == 2) {
				if !b.q.Own || holds(b.q.Op2, t.n, b.q.V2) {
					first = t
					break
				}
			}
			same := first != nil || len(got) == 0
			for _, g := range got {
				id, _ := dig(g, "_docID").(string)
				if first == nil || id != first.id {
					same = false
				}
			}
			if same {
				return sigLookup
			}
		}
		// rows of documents without holder cannot be produced by the inverted join
		dropKnown := (b.class == "order-from-related" && act.orderDrop && !plan.invertedByFilter) ||
			(b.class == "filter-from-related" && act.negDrop && !posOp(b.q.Op) && plan.invertedByFilter)
		if !dropKnown {
			return ""
		}
		var pred []any
		for _, row := range ref {
			id, _ := dig(row, "_docID").(string)
			if len(w.holders(b.rel, id)) > 0 {
				pred = append(pred, row)
			}
		}
		if sameMultiset(pred, got, b.dropKey) {
			if b.class == "order-from-related" {
				return sigOrderDrop
			}
			return sigNegDrop
		}
	}
	return ""
}

// explainPanic attributes a panic of a request to a listed finding, or returns "".
func (w *world) explainPanic(b built, indexedNode bool, text string) string {
	if !indexedNode || !strings.Contains(text, "Unclosed iterator at time of Txn.Discard") {
		return ""
	}
	r := w.tp.Rels[b.rel]
	own, other := r.To, r.From
	if b.fromTo {
		own, other = r.From, r.To
	}
	if rec.IsKnown(sigInPanic) {
		// an _in condition evaluated through an index
		if (b.q.Op == "_in" && w.c.idxN(other) && b.class != "aggregate-over-holders") ||
			(b.q.Op == "_in" && w.c.idxN(r.From) && (b.class == "aggregate-over-holders" || b.class == "filtered-sub-selection")) ||
			(b.q.Own && b.q.Op2 == "_in" && w.c.idxN(own)) ||
			(b.class == "relation-filter-with-filtered-sub-selection" && b.q.Op2 == "_in" && w.c.idxN(r.From)) {
			return sigInPanic
		}
	}
	return ""
}

// explainMinMax: the rows differ from the model only in _min/_max, and only for documents that have
// a holder whose n is null among the aggregated ones.
func (w *world) explainMinMax(b built, ref, got []any) string {
	if !rec.IsKnown(sigMinMax) || len(ref) != len(got) {
		return ""
	}
	strip := func(row any) (string, string) {
		m, ok := row.(map[string]any)
		if !ok {
			return "", ""
		}
		c := map[string]any{}
		for k, v := range m {
			if k != "_min" && k != "_max" {
				c[k] = v
			}
		}
		id, _ := m["_docID"].(string)
		return id, canonRows([]any{c}, b.dropKey)[0]
	}
	want := map[string]string{}
	full := map[string]string{}
	for _, r := range ref {
		id, c := strip(r)
		want[id] = c
		full[id] = canonRows([]any{r}, b.dropKey)[0]
	}
	hit := false
	for _, g := range got {
		id, c := strip(g)
		if want[id] != c {
			return ""
		}
		if full[id] == canonRows([]any{g}, b.dropKey)[0] {
			continue
		}
		null := false
		for _, h := range w.holders(b.rel, id) {
			if h.n == nil {
				null = true
			}
		}
		if !null {
			return ""
		}
		hit = true
	}
	if hit {
		return sigMinMax
	}
	return ""
}
