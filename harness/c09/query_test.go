package c09

import (
	"encoding/json"
	"fmt"
	"sort"
	"strconv"
	"strings"

	"github.com/sourcenetwork/defradb/verifharness/hx"
)

// built is one GraphQL read with what the model expects of it.
type built struct {
	class string // signature class
	body  string // request without the leading "query"
	root  string
	// want: expected rows; hasWant=false means the model has no opinion (negated operators,
	// filter interplay that is not documented) and only the twin comparison applies.
	want    []any
	hasWant bool
	scalar  bool
	keyPath []string
	desc    bool
	// invertible: the request filters or orders through a relation at the top level
	invertible bool
	subFilter  bool
	orderReq   bool
	// for the diagnosers
	q       Query
	rel     int
	fromTo  bool // true: the request starts at the holder side and reaches the related side
	dropKey string
	// idSet: the top-level selection carries a docID argument naming these ids (nil: none)
	idSet  map[string]bool
	idList bool
}

func posOp(op string) bool {
	for _, p := range posOps {
		if p == op {
			return true
		}
	}
	return false
}

// holds evaluates a positive operator on a possibly-null value (a comparison with null is false).
func holds(op string, a *int, v int) bool {
	if a == nil {
		return false
	}
	switch op {
	case "_eq":
		return *a == v
	case "_gt":
		return *a > v
	case "_ge":
		return *a >= v
	case "_lt":
		return *a < v
	case "_le":
		return *a <= v
	case "_in":
		return *a == v || *a == v+1
	}
	hx.Harnessf("holds: operator %q has no model", op)
	return false
}

func cond(op string, v int) string {
	if op == "_in" || op == "_nin" {
		return fmt.Sprintf("{%s: [%d, %d]}", op, v, v+1)
	}
	return fmt.Sprintf("{%s: %d}", op, v)
}

func jnum(p *int) any {
	if p == nil {
		return nil
	}
	return json.Number(strconv.Itoa(*p))
}

func docRow(d *mdoc) map[string]any {
	return map[string]any{"_docID": d.id, "n": jnum(d.n)}
}

func dirOf(desc bool) string {
	if desc {
		return "DESC"
	}
	return "ASC"
}

// build renders the request(s) of q and, when q names documents by docID, restricts the
// top-level selection to them: the model answer is the unrestricted answer restricted to those ids.
func (w *world) build(q Query) []built {
	bs := w.buildPlain(q)
	if q.IDMode == 0 || len(q.IDs) == 0 {
		return bs
	}
	for i := range bs {
		b := &bs[i]
		if b.scalar || !strings.HasPrefix(b.root, "T") {
			continue
		}
		col, err := strconv.Atoi(b.root[1:])
		if err != nil || col >= len(w.docs) {
			continue
		}
		all := w.docs[col]
		var ids []string
		seen := map[string]bool{}
		for _, sel := range q.IDs {
			id := danglingID
			if k := sel % (len(all) + 1); k < len(all) {
				id = all[k].id
			}
			if !seen[id] {
				seen[id] = true
				ids = append(ids, id)
			}
			if q.IDMode == 1 {
				break
			}
		}
		arg := strconv.Quote(ids[0])
		if q.IDMode == 2 {
			quoted := make([]string, len(ids))
			for j, id := range ids {
				quoted[j] = strconv.Quote(id)
			}
			arg = "[" + strings.Join(quoted, ", ") + "]"
		}
		withArgs, bare := "{ "+b.root+"(", "{ "+b.root+" {"
		switch {
		case strings.HasPrefix(b.body, withArgs):
			b.body = withArgs + "docID: " + arg + ", " + b.body[len(withArgs):]
		case strings.HasPrefix(b.body, bare):
			b.body = "{ " + b.root + "(docID: " + arg + ") {" + b.body[len(bare):]
		default:
			hx.Harnessf("cannot add a docID argument to %s", b.body)
		}
		b.idSet, b.idList = seen, q.IDMode == 2
		if b.hasWant {
			kept := []any{}
			for _, row := range b.want {
				if id, _ := dig(row, "_docID").(string); seen[id] {
					kept = append(kept, row)
				}
			}
			b.want = kept
		}
	}
	return bs
}

func (w *world) buildPlain(q Query) []built {
	k := q.Rel % len(w.tp.Rels)
	r := w.tp.Rels[k]
	H, T := colName(r.From), colName(r.To)
	rf, bf := fmt.Sprintf("r%d", k), fmt.Sprintf("b%d", k)
	kind := normalKind(q.K, w.tp, k)
	defined := posOp(q.Op)
	ownOK := func(d *mdoc) bool { return !q.Own || holds(q.Op2, d.n, q.V2) }
	ownPart := ""
	if q.Own {
		ownPart = "n: " + cond(q.Op2, q.V2) + ", "
	}
	orderArg := ""
	var keyPath []string
	desc := false
	if q.OwnOrder > 0 {
		desc = q.OwnOrder == 2
		orderArg = ", order: {n: " + dirOf(desc) + "}"
		keyPath = []string{"n"}
	}
	// rendering of the related side for a holder / of the holders for a related-side document
	holderRow := func(d *mdoc, render bool) map[string]any {
		row := docRow(d)
		if render {
			if t := w.target(d); t != nil {
				row[rf] = docRow(t)
			} else {
				row[rf] = nil
			}
		}
		return row
	}
	relatedRow := func(t *mdoc, render bool, keep func(*mdoc) bool) map[string]any {
		row := docRow(t)
		if render {
			hs := w.holders(k, t.id)
			if r.Many {
				list := []any{}
				for _, d := range hs {
					if keep == nil || keep(d) {
						list = append(list, docRow(d))
					}
				}
				row[bf] = list
			} else {
				row[bf] = nil
				if len(hs) > 0 {
					row[bf] = docRow(hs[0])
				}
			}
		}
		return row
	}
	hSel := "_docID n"
	if q.Render {
		hSel += " " + rf + " { _docID n }"
	}
	tSel := "_docID n"
	if q.Render {
		tSel += " " + bf + " { _docID n }"
	}
	// second condition inside the relation block (on the related document's name)
	nameCond := func(relatedCol int) (string, func(*mdoc) bool) {
		all := w.docs[relatedCol]
		if q.NameOp == "" || len(all) == 0 || len(q.Names) == 0 {
			return "", func(*mdoc) bool { return true }
		}
		set := map[string]bool{}
		var lits []string
		for _, i := range q.Names {
			nm := all[i%len(all)].name
			if !set[nm] {
				set[nm] = true
				lits = append(lits, strconv.Quote(nm))
			}
		}
		first := all[q.Names[0]%len(all)].name
		switch q.NameOp {
		case "_eq":
			return fmt.Sprintf(", name: {_eq: %q}", first), func(d *mdoc) bool { return d.name == first }
		case "_ne":
			return fmt.Sprintf(", name: {_ne: %q}", first), func(d *mdoc) bool { return d.name != first }
		case "_in":
			return ", name: {_in: [" + strings.Join(lits, ", ") + "]}", func(d *mdoc) bool { return set[d.name] }
		}
		return ", name: {_nin: [" + strings.Join(lits, ", ") + "]}", func(d *mdoc) bool { return !set[d.name] }
	}
	anyHolder := func(t *mdoc, op string, v int, nameOK func(*mdoc) bool) bool {
		for _, d := range w.holders(k, t.id) {
			if holds(op, d.n, v) && nameOK(d) {
				return true
			}
		}
		return false
	}
	switch kind {
	case "tfcnt":
		// filter through the list relation AND count all holders: the count is over every holder of the
		// selected document, not only over those that satisfy the filter (or that led the join to it)
		b := built{class: "count-of-holders-next-to-relation-filter", root: T, q: q, rel: k, hasWant: defined, invertible: true}
		b.body = fmt.Sprintf(`{ %s(filter: {%s: {n: %s}}) { _docID n c: _count(%s: {}) } }`, T, bf, cond(q.Op, q.V), bf)
		if defined {
			b.want = []any{}
			for _, t := range w.live(r.To) {
				if anyHolder(t, q.Op, q.V, func(*mdoc) bool { return true }) {
					row := docRow(t)
					row["c"] = json.Number(strconv.Itoa(len(w.holders(k, t.id))))
					b.want = append(b.want, row)
				}
			}
		}
		return []built{b}
	case "hfid":
		// the condition names nothing but the related document's id: it selects the holders whose link
		// RESOLVES to that document (a link to a deleted or never created document has no related
		// document, so its holder is not selected although its foreign key holds the id)
		all := w.docs[r.To]
		id := danglingID
		if n := q.V % (len(all) + 1); n < len(all) {
			id = all[n].id
		}
		b := built{class: "related-docid-filter-from-holder", root: H, q: q, rel: k, fromTo: true, hasWant: true, invertible: false}
		b.body = fmt.Sprintf(`{ %s(filter: {%s: {_docID: {_eq: %q}}}) { %s } }`, H, rf, id, hSel)
		b.want = []any{}
		for _, d := range w.live(r.From) {
			if t := w.target(d); t != nil && t.id == id {
				b.want = append(b.want, holderRow(d, q.Render))
			}
		}
		return []built{b}
	case "hf", "hor", "cnthf":
		b := built{class: "filter-from-holder", root: H, q: q, rel: k, fromTo: true, hasWant: defined, keyPath: keyPath, desc: desc, orderReq: q.OwnOrder > 0, invertible: kind != "hor"}
		extra, nameOK := "", func(*mdoc) bool { return true }
		if kind != "hor" {
			extra, nameOK = nameCond(r.To)
		}
		if extra != "" {
			b.class = "two-condition-" + b.class
		}
		filter := fmt.Sprintf("{%s%s: {n: %s%s}}", ownPart, rf, cond(q.Op, q.V), extra)
		if kind == "hor" {
			b.class = "or-filter-from-holder"
			filter = fmt.Sprintf("{_or: [{n: %s}, {%s: {n: %s}}]}", cond(q.Op2, q.V2), rf, cond(q.Op, q.V))
		}
		if defined {
			b.want = []any{}
			for _, d := range w.live(r.From) {
				t := w.target(d)
				rel := t != nil && holds(q.Op, t.n, q.V) && nameOK(t)
				ok := rel && ownOK(d)
				if kind == "hor" {
					ok = rel || holds(q.Op2, d.n, q.V2)
				}
				if ok {
					b.want = append(b.want, holderRow(d, q.Render))
				}
			}
		}
		if kind == "cnthf" {
			b.class = "count-filter-from-holder"
			b.scalar, b.root, b.keyPath, b.orderReq = true, "_count", nil, false
			b.body = fmt.Sprintf(`{ _count(%s: {filter: %s}) }`, H, filter)
			if defined {
				b.want = []any{json.Number(strconv.Itoa(len(b.want)))}
			}
			return []built{b}
		}
		b.body = fmt.Sprintf(`{ %s(filter: %s%s) { %s } }`, H, filter, orderArg, hSel)
		return []built{b}
	case "tf", "tor", "cnttf":
		b := built{class: "filter-from-related", root: T, q: q, rel: k, hasWant: defined, keyPath: keyPath, desc: desc, orderReq: q.OwnOrder > 0, invertible: kind != "tor"}
		extra, nameOK := "", func(*mdoc) bool { return true }
		if kind != "tor" {
			extra, nameOK = nameCond(r.From)
		}
		if extra != "" {
			b.class = "two-condition-" + b.class
		}
		filter := fmt.Sprintf("{%s%s: {n: %s%s}}", ownPart, bf, cond(q.Op, q.V), extra)
		if kind == "tor" {
			b.class = "or-filter-from-related"
			filter = fmt.Sprintf("{_or: [{n: %s}, {%s: {n: %s}}]}", cond(q.Op2, q.V2), bf, cond(q.Op, q.V))
		}
		if defined {
			b.want = []any{}
			for _, t := range w.live(r.To) {
				rel := anyHolder(t, q.Op, q.V, nameOK)
				ok := rel && ownOK(t)
				if kind == "tor" {
					ok = rel || holds(q.Op2, t.n, q.V2)
				}
				if ok {
					b.want = append(b.want, relatedRow(t, q.Render, nil))
				}
			}
		}
		if kind == "cnttf" {
			b.class = "count-filter-from-related"
			b.scalar, b.root, b.keyPath, b.orderReq = true, "_count", nil, false
			b.body = fmt.Sprintf(`{ _count(%s: {filter: %s}) }`, T, filter)
			if defined {
				b.want = []any{json.Number(strconv.Itoa(len(b.want)))}
			}
			return []built{b}
		}
		b.body = fmt.Sprintf(`{ %s(filter: %s%s) { %s } }`, T, filter, orderArg, tSel)
		return []built{b}
	case "horder":
		b := built{class: "order-from-holder", root: H, q: q, rel: k, fromTo: true, hasWant: true, keyPath: []string{rf, "n"}, desc: q.Desc, orderReq: true, invertible: true}
		f := ""
		if q.Own {
			f = "filter: {n: " + cond(q.Op2, q.V2) + "}, "
		}
		b.body = fmt.Sprintf(`{ %s(%sorder: {%s: {n: %s}}) { _docID n %s { _docID n } } }`, H, f, rf, dirOf(q.Desc), rf)
		b.want = []any{}
		for _, d := range w.live(r.From) {
			if ownOK(d) {
				b.want = append(b.want, holderRow(d, true))
			}
		}
		return []built{b}
	case "torder":
		b := built{class: "order-from-related", root: T, q: q, rel: k, hasWant: true, keyPath: []string{bf, "n"}, desc: q.Desc, orderReq: true, invertible: true}
		f := ""
		if q.Own {
			f = "filter: {n: " + cond(q.Op2, q.V2) + "}, "
		}
		b.body = fmt.Sprintf(`{ %s(%sorder: {%s: {n: %s}}) { _docID n %s { _docID n } } }`, T, f, bf, dirOf(q.Desc), bf)
		b.want = []any{}
		for _, t := range w.live(r.To) {
			if ownOK(t) {
				b.want = append(b.want, relatedRow(t, true, nil))
			}
		}
		return []built{b}
	case "agg":
		b := built{class: "aggregate-over-holders", root: T, q: q, rel: k, hasWant: defined, keyPath: keyPath, desc: desc, orderReq: q.OwnOrder > 0}
		cf := fmt.Sprintf("filter: {n: %s}", cond(q.Op, q.V))
		vf := ""
		if q.Desc {
			vf = ", " + cf
		}
		f := ""
		if q.Own {
			f = "filter: {n: " + cond(q.Op2, q.V2) + "}"
		}
		args := ""
		if f != "" || orderArg != "" {
			args = "(" + strings.TrimPrefix(f+orderArg, ", ") + ")"
		}
		sel := fmt.Sprintf("_docID n _count(%s: {%s}) _sum(%s: {field: n%s}) _min(%s: {field: n%s}) _max(%s: {field: n%s}) _avg(%s: {field: n%s})",
			bf, cf, bf, vf, bf, vf, bf, vf, bf, vf)
		if q.Render {
			sel += " " + bf + " { _docID n }"
		}
		b.body = fmt.Sprintf(`{ %s%s { %s } }`, T, args, sel)
		if defined {
			b.want = []any{}
			for _, t := range w.live(r.To) {
				if !ownOK(t) {
					continue
				}
				row := relatedRow(t, q.Render, nil)
				cnt, sum, num := 0, 0, 0
				var mn, mx *int
				sawNull := false
				for _, d := range w.holders(k, t.id) {
					if holds(q.Op, d.n, q.V) {
						cnt++
					}
					if q.Desc && !holds(q.Op, d.n, q.V) {
						continue
					}
					if d.n == nil {
						sawNull = true
						continue
					}
					v := *d.n
					sum += v
					num++
					if mn == nil || v < *mn {
						mn = &v
					}
					if mx == nil || v > *mx {
						mx = &v
					}
				}
				row["_count"] = json.Number(strconv.Itoa(cnt))
				row["_sum"] = json.Number(strconv.Itoa(sum))
				row["_min"], row["_max"] = jnum(mn), jnum(mx)
				avg := 0.0
				if num > 0 {
					avg = float64(sum) / float64(num)
				}
				row["_avg"] = avg
				if sawNull {
					// the average over a list that contains nulls is not pinned down by the documentation
					b.dropKey = "_avg"
				}
				b.want = append(b.want, row)
			}
		}
		return []built{b}
	case "sub":
		b := built{class: "filtered-sub-selection", root: T, q: q, rel: k, hasWant: defined, subFilter: true}
		b.body = fmt.Sprintf(`{ %s { _docID n %s(filter: {n: %s}) { _docID n } } }`, T, bf, cond(q.Op, q.V))
		if defined {
			b.want = []any{}
			for _, t := range w.live(r.To) {
				b.want = append(b.want, relatedRow(t, true, func(d *mdoc) bool { return holds(q.Op, d.n, q.V) }))
			}
		}
		return []built{b}
	case "tfsub":
		b := built{class: "relation-filter-with-filtered-sub-selection", root: T, q: q, rel: k, subFilter: true, invertible: true}
		b.body = fmt.Sprintf(`{ %s(filter: {%s: {n: %s}}) { _docID n %s(filter: {n: %s}) { _docID n } } }`, T, bf, cond(q.Op, q.V), bf, cond(q.Op2, q.V2))
		return []built{b}
	case "hopdown":
		// T2 -> T1 -> T0
		b := built{class: "two-hop-filter-from-holder", root: "T2", q: q, rel: 1, fromTo: true, hasWant: defined, invertible: true}
		sel := "_docID n"
		if q.Render {
			sel += " r1 { _docID n r0 { _docID n } }"
		}
		b.body = fmt.Sprintf(`{ T2(filter: {%sr1: {r0: {n: %s}}}) { %s } }`, ownPart, cond(q.Op, q.V), sel)
		if defined {
			b.want = []any{}
			for _, c := range w.live(2) {
				mid := w.target(c)
				if mid == nil || !ownOK(c) {
					continue
				}
				top := w.target(mid)
				if top == nil || !holds(q.Op, top.n, q.V) {
					continue
				}
				row := docRow(c)
				if q.Render {
					m := docRow(mid)
					m["r0"] = docRow(top)
					row["r1"] = m
				}
				b.want = append(b.want, row)
			}
		}
		return []built{b}
	case "hopup":
		b := built{class: "two-hop-filter-from-related", root: "T0", q: q, rel: 0, hasWant: defined, invertible: true}
		sel := "_docID n"
		if q.Render {
			sel += " b0 { _docID n b1 { _docID n } }"
		}
		b.body = fmt.Sprintf(`{ T0(filter: {%sb0: {b1: {n: %s}}}) { %s } }`, ownPart, cond(q.Op, q.V), sel)
		if defined {
			b.want = []any{}
			for _, a := range w.live(0) {
				if !ownOK(a) {
					continue
				}
				hit := false
				for _, mid := range w.holders(0, a.id) {
					for _, c := range w.holders(1, mid.id) {
						if holds(q.Op, c.n, q.V) {
							hit = true
						}
					}
				}
				if !hit {
					continue
				}
				row := docRow(a)
				if q.Render {
					row["b0"] = w.nestedDown(a)
				}
				b.want = append(b.want, row)
			}
		}
		return []built{b}
	case "hoprender":
		up := built{class: "two-hop-render-from-related", root: "T0", q: q, rel: 0, hasWant: true}
		up.body = `{ T0 { _docID n b0 { _docID n b1 { _docID n } } } }`
		up.want = []any{}
		for _, a := range w.live(0) {
			row := docRow(a)
			row["b0"] = w.nestedDown(a)
			up.want = append(up.want, row)
		}
		down := built{class: "two-hop-render-from-holder", root: "T2", q: q, rel: 1, fromTo: true, hasWant: true}
		down.body = `{ T2 { _docID n r1 { _docID n r0 { _docID n } } } }`
		down.want = []any{}
		for _, c := range w.live(2) {
			row := docRow(c)
			row["r1"] = nil
			if mid := w.target(c); mid != nil {
				m := docRow(mid)
				m["r0"] = nil
				if top := w.target(mid); top != nil {
					m["r0"] = docRow(top)
				}
				row["r1"] = m
			}
			down.want = append(down.want, row)
		}
		return []built{up, down}
	}
	hx.Harnessf("unknown query kind %q", q.K)
	return nil
}

// nestedDown renders a's b0 list with each element's b1 (list or single object).
func (w *world) nestedDown(a *mdoc) []any {
	list := []any{}
	for _, mid := range w.holders(0, a.id) {
		m := docRow(mid)
		hs := w.holders(1, mid.id)
		if w.tp.Rels[1].Many {
			sub := []any{}
			for _, c := range hs {
				sub = append(sub, docRow(c))
			}
			m["b1"] = sub
		} else {
			m["b1"] = nil
			if len(hs) > 0 {
				m["b1"] = docRow(hs[0])
			}
		}
		list = append(list, m)
	}
	return list
}

// ---------------------------------------------------------------- canonical rows

// canonValue sorts every nested list (their order is not specified) and rounds _avg.
func canonValue(v any, drop string) any {
	switch x := v.(type) {
	case map[string]any:
		out := map[string]any{}
		for k, e := range x {
			if k == drop {
				continue
			}
			if k == "_avg" {
				out[k] = avgString(e)
				continue
			}
			out[k] = canonValue(e, drop)
		}
		return out
	case []any:
		items := make([]any, len(x))
		keys := make([]string, len(x))
		for i, e := range x {
			items[i] = canonValue(e, drop)
			keys[i] = hx.Canon(items[i])
		}
		sort.SliceStable(items, func(i, j int) bool { return hx.Canon(items[i]) < hx.Canon(items[j]) })
		return items
	case []map[string]any:
		l := make([]any, len(x))
		for i := range x {
			l[i] = x[i]
		}
		return canonValue(l, drop)
	}
	return v
}

func avgString(v any) string {
	switch x := v.(type) {
	case json.Number:
		f, _ := x.Float64()
		return strconv.FormatFloat(f, 'f', 6, 64)
	case float64:
		return strconv.FormatFloat(x, 'f', 6, 64)
	case nil:
		return "null"
	}
	return fmt.Sprint(v)
}

func canonRows(rows []any, drop string) []string {
	out := make([]string, len(rows))
	for i, r := range rows {
		out[i] = hx.Canon(canonValue(r, drop))
	}
	return out
}

func (w *world) pretty(s string) string {
	for id, d := range w.byID {
		s = strings.ReplaceAll(s, id, d.name)
	}
	return s
}

func multisetDiff(want, got []string) (missing, extra []string) {
	cnt := map[string]int{}
	for _, s := range want {
		cnt[s]++
	}
	for _, s := range got {
		if cnt[s] > 0 {
			cnt[s]--
		} else {
			extra = append(extra, s)
		}
	}
	for _, s := range want {
		if cnt[s] > 0 {
			cnt[s]--
			missing = append(missing, s)
		}
	}
	sort.Strings(missing)
	sort.Strings(extra)
	return
}

func rowID(s string) string {
	var m map[string]any
	if json.Unmarshal([]byte(s), &m) == nil {
		id, _ := m["_docID"].(string)
		return id
	}
	return ""
}

func keyAt(row any, path []string) *int {
	cur := row
	for _, p := range path {
		m, ok := cur.(map[string]any)
		if !ok {
			return nil
		}
		cur = m[p]
	}
	return numOf(cur)
}

// lessKey: null sorts before every value.
func cmpKey(a, b *int) int {
	switch {
	case a == nil && b == nil:
		return 0
	case a == nil:
		return -1
	case b == nil:
		return 1
	case *a < *b:
		return -1
	case *a > *b:
		return 1
	}
	return 0
}

// ---------------------------------------------------------------- running one read

type planInfo struct {
	invertedByFilter bool
	invertedByOrder  bool
}

func (p planInfo) inverted() bool { return p.invertedByFilter || p.invertedByOrder }

func findKey(v any, key string, visit func(any)) {
	switch x := v.(type) {
	case map[string]any:
		for k, e := range x {
			if k == key {
				visit(e)
			}
			findKey(e, key, visit)
		}
	case []any:
		for _, e := range x {
			findKey(e, key, visit)
		}
	}
}

func dig(v any, path ...string) any {
	for _, p := range path {
		m, ok := v.(map[string]any)
		if !ok {
			return nil
		}
		v = m[p]
	}
	return v
}

// explainPlan reads the simple explain of the request: the join is inverted by filter when the
// joined type's scan carries a filter although the request has no filter on the sub-selection,
// and inverted by order when the requested order needs no order node.
func explainPlan(n *hx.Node, b built) (planInfo, bool) {
	r := n.Exec("query @explain " + b.body)
	if !r.OK() {
		return planInfo{}, false
	}
	var p planInfo
	if !b.subFilter {
		findKey(r.Data, "typeIndexJoin", func(j any) {
			if dig(j, "subType", "selectTopNode", "selectNode", "scanNode", "filter") != nil {
				p.invertedByFilter = true
			}
		})
	}
	if b.orderReq {
		hasOrder := false
		findKey(r.Data, "orderNode", func(any) { hasOrder = true })
		joins := false
		findKey(r.Data, "typeIndexJoin", func(any) { joins = true })
		if !hasOrder && joins && len(b.keyPath) == 2 {
			p.invertedByOrder = true
		}
	}
	return p, true
}

func (w *world) exec(n *hx.Node, b built) (rows []any, errText string) {
	r := n.Exec("query " + b.body)
	if r.Panic != "" {
		return nil, "PANIC " + r.Panic
	}
	if !r.OK() {
		return nil, r.Err()
	}
	if b.scalar {
		return []any{r.Data[b.root]}, ""
	}
	l, ok := r.Data[b.root].([]any)
	if !ok {
		return nil, fmt.Sprintf("no list under %q: %s", b.root, hx.Canon(r.Data))
	}
	return l, ""
}

func (w *world) query(qi int, q Query) *hx.Failure {
	for _, b := range w.build(q) {
		w.o.queries++
		w.o.label("q:" + b.class)
		idLabel := ""
		if b.idSet != nil {
			idLabel = "docid-single"
			if b.idList {
				idLabel = "docid-list"
			}
			w.o.label(idLabel)
			w.o.label(idLabel + ":" + b.class)
		}
		var plan planInfo
		if w.twin != nil && b.invertible {
			var ok bool
			plan, ok = explainPlan(w.idx, b)
			if !ok {
				// the explain request itself failed (it can hit the same panics as the request):
				// fall back on what the planner's rules say for the single-relation shapes
				w.o.label("explain-failed-plan-predicted")
				plan = w.predictPlan(b)
			}
			if b.subFilter {
				// the sub-selection has a filter of its own, so the explain criterion does not apply
				plan = w.predictPlan(b)
			}
			if tp, ok := explainPlan(w.twin, b); ok && tp.inverted() {
				hx.Harnessf("the explain-based detection of join inversion fires on the twin without indexes: %s", b.body)
			}
			if plan.invertedByFilter {
				w.o.inverted++
				w.o.label("plan:inverted-by-filter:" + b.class)
			}
			if plan.invertedByOrder {
				w.o.inverted++
				w.o.label("plan:inverted-by-order:" + b.class)
			}
			if idLabel != "" && plan.inverted() {
				w.o.label(idLabel + "+inverted-join")
			}
		}
		var got [][]any
		var errs []string
		for _, n := range w.nodes() {
			rows, e := w.exec(n, b)
			got = append(got, rows)
			errs = append(errs, e)
		}
		for ni := range got {
			planName := "plain"
			if ni == 0 && w.twin != nil {
				planName = "indexed-direct"
				if plan.inverted() {
					planName = "inverted"
				}
			}
			if strings.HasPrefix(errs[ni], "PANIC") {
				s := fmt.Sprintf("C09/%s/%s/panic", b.class, planName)
				if ks := w.explainPanic(b, ni == 0 && w.twin != nil, errs[ni]); ks != "" {
					s = ks
				}
				return hx.Failf(s, "query %d: query %s on the %s node: %s", qi, w.pretty(b.body), nodeName(ni), errs[ni])
			}
			if errs[ni] != "" {
				if b.hasWant || (len(errs) > 1 && (errs[0] == "") != (errs[1] == "")) {
					return hx.Failf(fmt.Sprintf("C09/%s/%s/query-error", b.class, planName), "query %d: query %s failed on the %s node: %s (other node: %v)", qi, b.body, nodeName(ni), errs[ni], errs)
				}
				w.o.label("query-error-on-both-nodes")
				continue
			}
			if b.hasWant {
				if f := w.compare(qi, b, planName, plan, "the model", b.want, got[ni]); f != nil {
					return f
				}
			}
		}
		if !b.hasWant && len(got) == 2 && errs[0] == "" && errs[1] == "" {
			planName := "indexed-direct"
			if plan.inverted() {
				planName = "inverted"
			}
			if f := w.compare(qi, b, planName, plan, "the twin without indexes", got[1], got[0]); f != nil {
				return f
			}
			w.o.label("compared-with-twin-only")
		}
		if b.hasWant && len(b.want) > 0 {
			w.o.label("result-nonempty")
		}
	}
	return nil
}

func (w *world) compare(qi int, b built, planName string, plan planInfo, ref string, want, got []any) *hx.Failure {
	cw, cg := canonRows(want, b.dropKey), canonRows(got, b.dropKey)
	missing, extra := multisetDiff(cw, cg)
	sig := func(diag string) string { return fmt.Sprintf("C09/%s/%s/%s", b.class, planName, diag) }
	if len(missing) > 0 || len(extra) > 0 {
		diag := "wrong-rows"
		switch {
		case b.scalar:
			diag = "wrong-value"
		case len(extra) == 0:
			diag = "missing-rows"
		case len(missing) == 0:
			diag = "extra-rows"
			// duplicates of expected rows?
			dup := true
			in := map[string]bool{}
			for _, s := range cw {
				in[s] = true
			}
			for _, s := range extra {
				if !in[s] {
					dup = false
				}
			}
			if dup {
				diag = "duplicate-rows"
			}
		default:
			// same documents but different content (related side or aggregate)?
			mi, ei := map[string]bool{}, map[string]bool{}
			for _, s := range missing {
				mi[rowID(s)] = true
			}
			same := len(missing) == len(extra)
			for _, s := range extra {
				ei[rowID(s)] = true
				if !mi[rowID(s)] {
					same = false
				}
			}
			if same {
				diag = "wrong-row-content"
			}
		}
		s := sig(diag)
		if ks := w.explainDiff(b, plan, planName, want, got); ks != "" {
			s = ks
		}
		return hx.Failf(s, "query %d: query %s (plan: %s) differs from %s: missing %s, extra %s; result %s",
			qi, w.pretty(b.body), planName, ref, w.pretty(fmt.Sprint(missing)), w.pretty(fmt.Sprint(extra)), w.pretty(hx.Canon(got)))
	}
	if b.keyPath != nil {
		for i := 1; i < len(got); i++ {
			c := cmpKey(keyAt(got[i-1], b.keyPath), keyAt(got[i], b.keyPath))
			if b.desc {
				c = -c
			}
			if c > 0 {
				return hx.Failf(sig("wrong-order"), "query %d: query %s (plan: %s): rows %d and %d are out of order (null first ascending): %s",
					qi, w.pretty(b.body), planName, i-1, i, w.pretty(hx.Canon(got)))
			}
		}
	}
	return nil
}

// predictPlan applies the planner's inversion rule (tryOptimizeJoinDirection*): a non-complex filter
// on an indexed field of the related type inverts the join, otherwise an order on such a field does.
func (w *world) predictPlan(b built) planInfo {
	r := w.tp.Rels[b.rel]
	other := r.From
	if b.fromTo {
		other = r.To
	}
	if !w.c.idxN(other) {
		return planInfo{}
	}
	switch b.class {
	case "filter-from-holder", "filter-from-related", "count-filter-from-holder", "count-filter-from-related",
		"two-condition-filter-from-holder", "two-condition-filter-from-related",
		"relation-filter-with-filtered-sub-selection":
		return planInfo{invertedByFilter: true}
	case "order-from-holder", "order-from-related":
		return planInfo{invertedByOrder: true}
	}
	return planInfo{}
}
