package c09

import (
	"encoding/json"
	"sort"
	"testing"

	"pgregory.net/rapid"

	"github.com/sourcenetwork/defradb/verifharness/hx"
)

func TestMain(m *testing.M) { hx.Main(m) }

var rec = hx.NewRecorder("C09",
	"a case is a relation topology (1-1, 1-N, self-referencing 1-N and 1-1, two hops 1-N/1-N and 1-N/1-1), a choice of secondary indexes "+
		"(on each type's scalar n, which lets the planner invert a join, and on each foreign key), a history of create/link/relink/unlink/delete "+
		"writes through GraphQL or the collection API (incl. update-by-filter of several documents and links to deleted or never-created ids) and 2-7 reads "+
		"that filter, order or aggregate through a relation from either side; non-trivial = the final state has a related-side document with >=2 live holders "+
		"(1-1: with a holder) and one with none, and at least one read whose explain shows the inverted join direction; distinct = distinct case",
	"membership is defined by equality of the stored foreign key with the docID only; a foreign key naming a deleted or never-created document is legal data",
	"a comparison operator applied to a null field is false; filters through a list relation mean 'some related document matches'",
	"ordering: null (also: no related document) sorts first ascending, last descending; ties in any order",
	"negated operators (_ne, _nin) through a relation and a relation filter combined with a filtered sub-selection have no reference semantics here: compared with the unindexed twin only",
	"ordering through a list relation is documented as not allowed and not generated; _avg over values that include null is not compared",
)

func nontrivial(o *obs) bool {
	return o != nil && o.parent0 && o.parent2 && o.inverted > 0
}

func labelsOf(c Case, o *obs) []string {
	ls := []string{"topo:" + c.Topo}
	if c.anyIndex() {
		ls = append(ls, "has-index")
	} else {
		ls = append(ls, "no-index")
	}
	if c.Avoid {
		ls = append(ls, "known-finding-triggers-avoided")
	}
	if o == nil {
		return ls
	}
	if o.parent0 {
		ls = append(ls, "state:related-doc-without-holder")
	}
	if o.parent2 {
		ls = append(ls, "state:related-doc-with-2+holders(1-1:linked)")
	}
	if o.inverted > 0 {
		ls = append(ls, "case-with-inverted-join")
	}
	keys := make([]string, 0, len(o.labels))
	for k := range o.labels {
		keys = append(keys, k)
	}
	sort.Strings(keys)
	return append(ls, keys...)
}

func run(c Case) *hx.Failure {
	_, f := guarded(c)
	return f
}

func guarded(c Case) (o *obs, f *hx.Failure) {
	f = hx.Guard("C09", func() *hx.Failure {
		var ff *hx.Failure
		o, ff = runCase(c)
		return ff
	})
	return o, f
}

func TestC09(t *testing.T) {
	rapid.Check(t, func(t *rapid.T) {
		avoid := rapid.Bool().Draw(t, "avoid") && anyKnown()
		c := drawCase(t, avoid)
		o, f := guarded(c)
		rec.Eval(c, f == nil && nontrivial(o), labelsOf(c, o)...)
		rec.Check(t, c, f)
	})
}

func anyKnown() bool {
	for _, s := range knownSigs {
		if rec.IsKnown(s) {
			return true
		}
	}
	return false
}

func TestReplay(t *testing.T) {
	raw := hx.ReplayCase(t)
	rec.SetReplaying()
	var c Case
	if err := json.Unmarshal(raw, &c); err != nil {
		t.Fatal(err)
	}
	rec.Check(t, c, run(c))
}

func TestRegress(t *testing.T) {
	hx.Regress(t, "testdata/regress", func(raw []byte) *hx.Failure {
		var c Case
		if err := json.Unmarshal(raw, &c); err != nil {
			return hx.Failf("C09/regress-file", "%v", err)
		}
		return run(c)
	}, rec)
}
