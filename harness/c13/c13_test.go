package c13

import (
	"encoding/json"
	"fmt"
	"testing"

	"pgregory.net/rapid"

	"github.com/sourcenetwork/defradb/verifharness/hx"
)

func TestMain(m *testing.M) { hx.Main(m) }

var rec = hx.NewRecorder("C13",
	"documents: one value assignment over every scalar/array/counter kind is turned into a document by NewDocFromJSON (two key orders), "+
		"NewDocFromMap (Go-typed values), create_X through GraphQL on two nodes and the collection API, and documents built in two steps (NewDocFromJSON of some fields, SetWithJSON of the rest; created directly - which may be refused, never stored under the stale id - or after GenerateAndSetDocID), with null fields either written or omitted per route; "+
		"non-trivial = at least 3 non-null fields, at least 3 routes and at least one field that is null on one route and omitted on another. "+
		"schemas: 1-6 type definitions with 1-3 scalar fields and relations (1-1, 1-N, one-sided; self, cycles of length 1-4, tails into/out of cycles, links between cycles) "+
		"added to fresh nodes in 3-5 variants (type order, field order, partition of the relation-connected components into successive AddSchema calls, repetition); "+
		"non-trivial = the set has a relation cycle and a type with >=3 relation fields, or the variants differ in call partitioning; distinct = distinct case",
	"DateTime and Blob values are given as the same text on every route; a float is given per route as one of three exact decimal texts (encoding/json form incl. -0 and integer literals, strconv 'g', plain decimal) and the Go map route receives the float64 itself",
	"inside a JSON-kind value a GraphQL integer literal is a 32-bit Int without a sign of zero, so JSON integers outside int32 and the JSON number -0 are written as float literals (-0.0) on the GraphQL route; NaN/Inf are excluded",
	"GraphQL Int literals are 32-bit: assignments with larger integers skip the GraphQL routes",
	"AddSchema documents that a call may not reference types defined by an earlier call, so partitions split only between relation-connected components",
	"a variant AddSchema rejects is not a variant; a rejected base definition makes the case trivial (only consistency of the rejection is checked)",
	"the grouping clause takes the contract documented in getSchemaSets (every relation cycle is hashed as one set, sets are minimal) as specification",
)

// Case wraps the two domains for replay.
type Case struct {
	Doc    *DocCase    `json:"doc,omitempty"`
	Schema *SchemaCase `json:"schema,omitempty"`
	Golden *GoldenCase `json:"golden,omitempty"`
}

func runCase(c Case) []*hx.Failure {
	var out []*hx.Failure
	switch {
	case c.Golden != nil:
		f := hx.Guard("C13", func() *hx.Failure {
			out = runGolden()
			return nil
		})
		if f != nil {
			out = append(out, f)
		}
	case c.Schema != nil:
		f := hx.Guard("C13", func() *hx.Failure {
			o := runSchema(*c.Schema)
			out = o.failures
			return nil
		})
		if f != nil {
			out = append(out, f)
		}
	case c.Doc != nil:
		f := hx.Guard("C13", func() *hx.Failure {
			o := runDoc(*c.Doc)
			out = o.failures
			return nil
		})
		if f != nil {
			out = append(out, f)
		}
	}
	return out
}

func TestC13Schemas(t *testing.T) {
	rapid.Check(t, func(t *rapid.T) {
		sc := drawSchemaCase(t)
		c := Case{Schema: &sc}
		var o schemaOutcome
		f := hx.Guard("C13", func() *hx.Failure { o = runSchema(sc); return nil })
		if f != nil {
			o.failures = append(o.failures, f)
		}
		labels, nontrivial := schemaLabels(sc, o)
		rec.Eval(c, nontrivial, labels...)
		rec.Extra["schema_nodes_booted"] = addInt(rec.Extra["schema_nodes_booted"], o.nodes)
		for _, f := range o.failures {
			rec.Check(t, c, f)
		}
	})
}

func TestC13Docs(t *testing.T) {
	t.Cleanup(closeDocEnv)
	// identifiers recorded in another process must come out the same in this one
	gc := Case{Golden: &GoldenCase{On: true}}
	rec.AddEvals(1)
	rec.Label("golden-identifiers-compared-with-recorded-run")
	for _, f := range runCase(gc) {
		rec.Check(t, gc, f)
	}
	rapid.Check(t, func(t *rapid.T) {
		dc := drawDocCase(t)
		c := Case{Doc: &dc}
		var o docOutcome
		f := hx.Guard("C13", func() *hx.Failure { o = runDoc(dc); return nil })
		if f != nil {
			o.failures = append(o.failures, f)
		}
		labels := []string{"doc", fmt.Sprintf("doc:routes=%d", o.routes)}
		if o.gqlSkipped {
			labels = append(labels, "doc:int-beyond-32bit(no-graphql-route)")
		}
		if o.setRefused > 0 {
			labels = append(labels, "doc:two-step-document-refused-by-create(stale-id)")
		}
		if o.setStored > 0 {
			labels = append(labels, "doc:two-step-document-stored")
		}
		if o.nullSwapped {
			labels = append(labels, "doc:null-written-vs-omitted")
		}
		if o.emptyDoc {
			labels = append(labels, "doc:all-fields-null")
		}
		if o.mutation != "" {
			labels = append(labels, "doc:mutated-kind:"+kindClass(o.mutatedKind), "doc:mutation:"+o.mutation)
		}
		if o.commitRoutes >= 2 {
			labels = append(labels, "doc:genesis-commits-compared")
		}
		labels = append(labels, floatLabels(dc)...)
		for i, fd := range docFields {
			if i < len(dc.Vals) && !dc.Vals[i].Null {
				labels = append(labels, "doc:nonnull:"+kindClass(fd.Kind))
			}
		}
		nontrivial := o.nonNull >= 3 && o.routes >= 3 && o.nullSwapped
		rec.Eval(c, nontrivial, labels...)
		for _, f := range o.failures {
			rec.Check(t, c, f)
		}
	})
}

func addInt(v any, n int) int {
	if x, ok := v.(int); ok {
		return x + n
	}
	return n
}

func schemaLabels(c SchemaCase, o schemaOutcome) ([]string, bool) {
	labels := []string{"schema"}
	names, adj := c.primaryAdj()
	comps := sccs(names, adj)
	hasCycle, selfLoop, maxCycle := false, false, 0
	for _, s := range comps {
		if len(s) > 1 {
			hasCycle = true
			if len(s) > maxCycle {
				maxCycle = len(s)
			}
		}
	}
	for _, r := range c.Rels {
		if r.From%len(c.Types) == r.To%len(c.Types) {
			selfLoop = true
		}
	}
	maxRel := 0
	for i := range c.Types {
		k := 0
		for _, f := range c.fieldsOf(i) {
			_ = f
		}
		for _, r := range c.Rels {
			if r.From%len(c.Types) == i {
				k++
			}
			if r.To%len(c.Types) == i && r.Form != "os" {
				k++
			}
		}
		if k > maxRel {
			maxRel = k
		}
	}
	multiCycle := 0
	for _, s := range comps {
		if len(s) > 1 {
			multiCycle++
		}
	}
	if hasCycle {
		labels = append(labels, "schema:cycle", fmt.Sprintf("schema:max-cycle-set=%d", maxCycle))
	}
	if multiCycle >= 2 {
		labels = append(labels, "schema:two-or-more-cycle-sets")
	}
	if selfLoop {
		labels = append(labels, "schema:self-relation")
	}
	if maxRel >= 3 {
		labels = append(labels, "schema:type-with>=3-relations")
	}
	if len(c.Rels) == 0 {
		labels = append(labels, "schema:no-relations")
	}
	if o.multiCall {
		labels = append(labels, "schema:multi-call-partition")
	}
	if len(components(c)) >= 2 {
		labels = append(labels, "schema:>=2-components")
	}
	if !o.baseAccepted {
		labels = append(labels, "schema:base-rejected")
	}
	if o.rejectedVar > 0 {
		labels = append(labels, "schema:variant-rejected")
	}
	if o.exchanged {
		labels = append(labels, "schema:exchanged")
	}
	labels = append(labels, fmt.Sprintf("schema:types=%d", len(c.Types)))
	// a cycle member with a relation to a type outside every cycle (the shape observation 11 needs)
	nontrivial := o.baseAccepted && ((hasCycle && maxRel >= 3) || o.multiCall)
	return labels, nontrivial
}

func TestReplay(t *testing.T) {
	raw := hx.ReplayCase(t)
	rec.SetReplaying()
	var c Case
	if err := json.Unmarshal(raw, &c); err != nil {
		t.Fatal(err)
	}
	for _, f := range runCase(c) {
		rec.Check(t, c, f)
	}
}

func TestRegress(t *testing.T) {
	hx.Regress(t, "testdata/regress", func(raw []byte) *hx.Failure {
		var c Case
		if err := json.Unmarshal(raw, &c); err != nil {
			return hx.Failf("C13/regress-file", "%v", err)
		}
		for _, f := range runCase(c) {
			if !rec.IsKnown(f.Sig) {
				return f
			}
		}
		return nil
	}, rec)
}
