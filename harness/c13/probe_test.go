package c13

import (
	"fmt"
	"testing"

	"github.com/sourcenetwork/defradb/client"
	"github.com/sourcenetwork/defradb/verifharness/hx"
)

func TestProbe(t *testing.T) {
	n := hx.MustMemNode()
	defer n.Close()
	sdl := `type Users {
  s: String
  i: Int
  f: Float
  g: Float32
  b: Boolean
  t: DateTime
  bl: Blob
  j: JSON
  ai: [Int!]
  ani: [Int]
  as: [String!]
  ans: [String]
  ab: [Boolean!]
  anb: [Boolean]
  af: [Float!]
  anf: [Float]
  pn: Int @crdt(type: pncounter)
  pc: Int @crdt(type: pcounter)
  pf: Float @crdt(type: pncounter)
  boss: Users @primary
}`
	_, err := n.DB.AddSchema(n.Ctx, sdl)
	fmt.Println("add:", err)
	col, _ := n.DB.GetCollectionByName(n.Ctx, "Users")
	for _, f := range col.Definition().GetFields() {
		fmt.Printf("  %s kind=%v prim=%v\n", f.Name, f.Kind, f.IsPrimaryRelation)
	}
	js := `{"s":"x","i":3,"f":1.5,"g":0.25,"b":true,"t":"2020-01-02T03:04:05.123456789+02:00","bl":"00ff","j":{"k":[1,null,"x"]},"ai":[1,2],"ani":[1,null],"as":["a"],"ans":[null,"b"],"ab":[true],"anb":[null,false],"af":[1.5],"anf":[null,2.5],"pn":5,"pc":6,"pf":1.5,"boss_id":"bae-4de24838-2abe-536d-8b1d-14b9390d3035"}`
	d, err := client.NewDocFromJSON([]byte(js), col.Definition())
	fmt.Println("json doc:", err)
	if err == nil {
		fmt.Println(" id", d.ID())
	}
	js2 := `{"s":"x","i":3,"f":1.5,"g":0.25,"b":true,"t":"2020-01-02T03:04:05.123456789+02:00","bl":"00ff","j":{"k":[1,null,"x"]},"ai":[1,2],"ani":[1,null],"as":["a"],"ans":[null,"b"],"ab":[true],"anb":[null,false],"af":[1.5],"anf":[null,2.5],"pn":5,"pc":6,"pf":1.5,"boss":"bae-4de24838-2abe-536d-8b1d-14b9390d3035"}`
	d2, err := client.NewDocFromJSON([]byte(js2), col.Definition())
	fmt.Println("json doc2:", err)
	if err == nil {
		fmt.Println(" id", d2.ID())
	}
	txn, err := n.DB.NewTxn(n.Ctx, false)
	fmt.Println("txn:", err)
	q := `mutation { create_Users(input: {s:"x", i:3, f:1.5, g:0.25, b:true, t:"2020-01-02T03:04:05.123456789+02:00", bl:"00ff", j:{k:[1,null,"x"]}, ai:[1,2], ani:[1,null], as:["a"], ans:[null,"b"], ab:[true], anb:[null,false], af:[1.5], anf:[null,2.5], pn:5, pc:6, pf:1.5, boss_id:"bae-4de24838-2abe-536d-8b1d-14b9390d3035"}) { _docID } }`
	r := hx.ExecOn(n.Ctx, txn, q)
	fmt.Println("gql:", r.Err(), r.Panic, hx.Canon(r.Data))
	q3 := `mutation { create_Users(input: {s:"y", boss:"bae-4de24838-2abe-536d-8b1d-14b9390d3035"}) { _docID boss_id} }`
	r = hx.ExecOn(n.Ctx, txn, q3)
	fmt.Println("gql boss:", r.Err(), r.Panic, hx.Canon(r.Data))
	r = hx.ExecOn(n.Ctx, txn, `query { commits { cid docID fieldName height } }`)
	fmt.Println("commits in txn:", r.Err(), len(r.Rows("commits")))
	for _, row := range r.Rows("commits") {
		fmt.Println("   ", hx.Canon(row))
	}
	txn.Discard(n.Ctx)
	r = n.Exec(`query { Users { _docID } }`)
	fmt.Println("after discard:", r.Err(), hx.Canon(r.Data))
	// same via collection in txn
	txn2, _ := n.DB.NewTxn(n.Ctx, false)
	col2, err := txn2.GetCollectionByName(n.Ctx, "Users")
	fmt.Println("txn col:", err)
	if err == nil {
		err = col2.Create(n.Ctx, d)
		fmt.Println("create:", err)
		r = hx.ExecOn(n.Ctx, txn2, `query { commits { cid docID fieldName height } }`)
		fmt.Println("commits in txn2:", r.Err(), len(r.Rows("commits")))
		for _, row := range r.Rows("commits") {
			fmt.Println("   ", hx.Canon(row))
		}
	}
	txn2.Discard(n.Ctx)
}
