package c13

import (
	"fmt"
	"sort"
	"strings"

	"github.com/sourcenetwork/defradb/client"
	"github.com/sourcenetwork/defradb/verifharness/hx"
)

// GoldenCase pins identifiers across OS processes and runs: the identifiers of a few fixed
// definitions and documents were recorded once (from this tree) and must come out the same in
// every later process. In-process repetition cannot see a dependence on something that is constant
// within a process (a per-process random seed, an address, the pid, the start time).
type GoldenCase struct {
	On bool `json:"on"`
}

const goldenSDL = `
type Ba {
  name: String
  fav: Mm @primary
}
type Mm {
  title: String
  rating: Float
  owner: Na
  tags: [String!]
}
type Na {
  name: String
  age: Int
  items: [Mm]
  best: Mm @primary @relation(name: "best")
}
type Solo {
  k: Int
  boss: Solo @primary @relation(name: "boss")
  minion: Solo @relation(name: "boss")
}
`

var goldenDocs = []string{
	`{"s":"golden","i":42,"f":1.5,"b":true,"t":"2020-01-02T03:04:05.123456789Z","bl":"00ff","j":{"k":[1,null,"x"]},"ai":[1,2,3],"as":["a",""],"pn":5,"pc":6,"pf":0.25}`,
	`{"g":0.25,"ab":[true,false],"af":[0.5],"boss_id":"bae-4de24838-2abe-536d-8b1d-14b9390d3035"}`,
	`{}`,
}

// goldenWant was recorded from the pinned tree; the chosen shapes are not touched by the known findings.
var goldenWant = map[string]string{
	"collection:Ba":   "bafkreiawmgaavts7t3rdboyop4is6s5fo3mpcpypub7wyoihwo3bj6cdrm",
	"collection:Mm":   "bafkreibdhxlwprc5ubzojei6ouuieinq3eqikckpyjsasgkcazfya7jqma-0",
	"collection:Na":   "bafkreibdhxlwprc5ubzojei6ouuieinq3eqikckpyjsasgkcazfya7jqma-1",
	"collection:Solo": "bafkreieft2g6o2nfyjjijj4sox6z2hcl6hd7aa6ocwpbg5owni7f7cayyq",
	"docid:0":         "bae-b3d5097b-f470-52b3-92fb-ceaa70d02355",
	"docid:1":         "bae-14518a47-7267-5766-8eb0-547c525af7f4",
	"docid:2":         "bae-4ac0e7ed-5c93-5393-a464-a7a997a9df27",
	"root:Ba":         "bafkreiawmgaavts7t3rdboyop4is6s5fo3mpcpypub7wyoihwo3bj6cdrm",
	"root:Mm":         "bafkreibdhxlwprc5ubzojei6ouuieinq3eqikckpyjsasgkcazfya7jqma-0",
	"root:Na":         "bafkreibdhxlwprc5ubzojei6ouuieinq3eqikckpyjsasgkcazfya7jqma-1",
	"root:Solo":       "bafkreieft2g6o2nfyjjijj4sox6z2hcl6hd7aa6ocwpbg5owni7f7cayyq",
	"root:Users":      "bafkreifdmugi34sx4ll44esyv4m6qmrfqlcrq4ixtdrrlwpocnq5bjo2oy",
	"version:Ba":      "bafkreiawmgaavts7t3rdboyop4is6s5fo3mpcpypub7wyoihwo3bj6cdrm",
	"version:Mm":      "bafkreibdhxlwprc5ubzojei6ouuieinq3eqikckpyjsasgkcazfya7jqma-0",
	"version:Na":      "bafkreibdhxlwprc5ubzojei6ouuieinq3eqikckpyjsasgkcazfya7jqma-1",
	"version:Solo":    "bafkreieft2g6o2nfyjjijj4sox6z2hcl6hd7aa6ocwpbg5owni7f7cayyq",
}

func computeGolden() map[string]string {
	out := map[string]string{}
	n := hx.MustMemNode()
	defer n.Close()
	if _, err := n.DB.AddSchema(n.Ctx, goldenSDL); err != nil {
		hx.Harnessf("golden schema rejected: %v", err)
	}
	for _, name := range []string{"Ba", "Mm", "Na", "Solo"} {
		col, err := n.DB.GetCollectionByName(n.Ctx, name)
		if err != nil {
			hx.Harnessf("golden: %v", err)
		}
		out["version:"+name] = col.Version().VersionID
		out["collection:"+name] = col.Version().CollectionID
		out["root:"+name] = col.Schema().Root
	}
	e := getDocEnv()
	out["root:Users"] = e.defA.Schema.Root
	for i, js := range goldenDocs {
		d, err := client.NewDocFromJSON([]byte(js), e.defA)
		if err != nil {
			hx.Harnessf("golden doc %d: %v", i, err)
		}
		out[fmt.Sprintf("docid:%d", i)] = d.ID().String()
	}
	return out
}

func runGolden() []*hx.Failure {
	got := computeGolden()
	keys := make([]string, 0, len(got))
	for k := range got {
		keys = append(keys, k)
	}
	sort.Strings(keys)
	if len(goldenWant) == 0 {
		var sb strings.Builder
		for _, k := range keys {
			fmt.Fprintf(&sb, "\t%q: %q,\n", k, got[k])
		}
		hx.Harnessf("golden identifiers not recorded yet:\n%s", sb.String())
	}
	for _, k := range keys {
		if goldenWant[k] != got[k] {
			kind := k[:strings.Index(k, ":")]
			return []*hx.Failure{hx.Failf("C13/run-dependence/"+kind, "identifier %s is %s in this process but was %s when recorded from the same tree in another process", k, got[k], goldenWant[k])}
		}
	}
	return nil
}
