package c13

import (
	"encoding/json"
	"fmt"
	"sort"
	"strings"
	"sync"

	"github.com/sourcenetwork/immutable"
	"pgregory.net/rapid"

	"github.com/sourcenetwork/defradb/client"
	"github.com/sourcenetwork/defradb/event"
	"github.com/sourcenetwork/defradb/verifharness/hx"
)

// ---------------------------------------------------------------------------
// Case
// ---------------------------------------------------------------------------

// Scalar is one scalar field of a type definition.
type Scalar struct {
	Name string `json:"n"`
	Type string `json:"t"`
}

// Rel is one relation. From always holds the primary side, i.e. the primary
// relation graph has the edge From -> To.
//
//	Form "11": From { F: To @primary }  To { B: From }
//	Form "1n": From { F: To [@primary] } To { B: [From] }
//	Form "os": From { F: To [@primary] }            (one-sided)
type Rel struct {
	From     int    `json:"from"`
	To       int    `json:"to"`
	Form     string `json:"form"`
	F        string `json:"f"`
	B        string `json:"b,omitempty"`
	Explicit bool   `json:"explicit,omitempty"` // explicit @primary on F (always for "11")
	Name     string `json:"name,omitempty"`     // explicit @relation(name:)
}

// TypeDef is one type definition (relation fields come from Rels).
type TypeDef struct {
	Name    string   `json:"name"`
	Scalars []Scalar `json:"scalars"`
}

// Variant is one way of handing the same definitions to the database.
type Variant struct {
	// TypeOrder is a permutation of the type indexes (order inside the SDL).
	TypeOrder []int `json:"type_order"`
	// FieldShuffle seeds a deterministic permutation of the fields of every type (0 = declared order).
	FieldShuffle uint32 `json:"field_shuffle"`
	// Groups maps the k-th relation-connected component to an AddSchema call (calls run in ascending group order).
	Groups []int `json:"groups"`
	// Reps is how often the identical variant is repeated in fresh nodes.
	Reps int `json:"reps"`
	// Extra are additional type definitions handed over together with the base definitions
	// ("superset" variant). They refer to base types only through one-sided relations
	// (ExtraRels, From counted from len(Types)), which leave the base definitions untouched.
	Extra     []TypeDef `json:"extra,omitempty"`
	ExtraRels []Rel     `json:"extra_rels,omitempty"`
}

// SchemaCase is a set of type definitions plus the variants to compare.
type SchemaCase struct {
	Types    []TypeDef `json:"types"`
	Rels     []Rel     `json:"rels"`
	Variants []Variant `json:"variants"`
	// exchange: documents are created on the node of variant XA and delivered to the node of variant XB
	XA    int `json:"xa"`
	XB    int `json:"xb"`
	XType int `json:"xtype"`
	XSeed int `json:"xseed"`
}

// ---------------------------------------------------------------------------
// Generator
// ---------------------------------------------------------------------------

var scalarTypes = []string{"String", "Int", "Float", "Boolean", "DateTime", "Blob", "JSON", "[Int!]", "[String]", "Float32", "[Boolean!]"}

var typeNamePool = []string{"Aa", "Ab", "Ba", "Bb", "Ca", "Dd", "Ee", "Mm", "Na", "Pq", "Ua", "Xa", "Ya", "Za", "Zz"}

func drawSchemaCase(t *rapid.T) SchemaCase {
	var c SchemaCase
	n := rapid.SampledFrom([]int{1, 2, 2, 2, 3, 3, 3, 3, 4, 4, 4, 4, 4, 5, 5, 5, 5, 6, 6, 6}).Draw(t, "ntypes")
	// distinct names; their sort order is independent of the index order
	namePerm := rapid.Permutation(typeNamePool).Draw(t, "names")
	fieldNo := 0
	newField := func(label string) string {
		fieldNo++
		l := rapid.SampledFrom([]string{"a", "b", "c", "k", "m", "p", "x", "y", "z"}).Draw(t, label)
		return fmt.Sprintf("%s%d", l, fieldNo)
	}
	for i := 0; i < n; i++ {
		td := TypeDef{Name: namePerm[i]}
		ns := rapid.IntRange(1, 3).Draw(t, "nscalars")
		for j := 0; j < ns; j++ {
			td.Scalars = append(td.Scalars, Scalar{Name: newField("sl"), Type: rapid.SampledFrom(scalarTypes).Draw(t, "stype")})
		}
		c.Types = append(c.Types, td)
	}

	type edge struct{ from, to int }
	var edges []edge
	// cycles first: consume types in index order
	next := 0
	mode := rapid.IntRange(0, 9).Draw(t, "shape")
	if mode >= 2 { // 80 %: at least one cycle
		ncyc := rapid.IntRange(1, 2).Draw(t, "ncycles")
		for k := 0; k < ncyc && next < n; k++ {
			l := rapid.SampledFrom([]int{1, 2, 2, 2, 3, 3, 4}).Draw(t, "cyclelen")
			if l > n-next {
				l = n - next
			}
			for j := 0; j < l; j++ {
				edges = append(edges, edge{next + j, next + (j+1)%l})
			}
			next += l
		}
	}
	// extra edges: tails into / out of cycles, links between cycles, chords, isolated chains
	nx := rapid.IntRange(0, 5).Draw(t, "nextra")
	for k := 0; k < nx; k++ {
		edges = append(edges, edge{rapid.IntRange(0, n-1).Draw(t, "efrom"), rapid.IntRange(0, n-1).Draw(t, "eto")})
	}
	pairCount := map[[2]int]int{}
	for _, e := range edges {
		a, b := e.from, e.to
		if a > b {
			a, b = b, a
		}
		pairCount[[2]int{a, b}]++
	}
	for k, e := range edges {
		r := Rel{From: e.from, To: e.to}
		r.Form = rapid.SampledFrom([]string{"11", "1n", "1n", "os", "os"}).Draw(t, "form")
		r.F = newField("fl")
		if r.Form != "os" {
			r.B = newField("bl")
		}
		r.Explicit = r.Form == "11" || rapid.Bool().Draw(t, "explicit")
		a, b := e.from, e.to
		if a > b {
			a, b = b, a
		}
		if pairCount[[2]int{a, b}] > 1 || e.from == e.to || rapid.IntRange(0, 3).Draw(t, "named") == 0 {
			r.Name = fmt.Sprintf("r%d", k)
		}
		c.Rels = append(c.Rels, r)
	}

	comps := components(c)
	nv := rapid.IntRange(3, 5).Draw(t, "nvariants")
	ident := make([]int, n)
	for i := range ident {
		ident[i] = i
	}
	for v := 0; v < nv; v++ {
		var va Variant
		va.TypeOrder = append([]int{}, ident...)
		va.Groups = make([]int, len(comps))
		va.Reps = 1
		if v == 0 {
			va.Reps = rapid.IntRange(2, 3).Draw(t, "reps0")
			c.Variants = append(c.Variants, va)
			continue
		}
		// most variants differ from the base in exactly one aspect so that the diagnosis can name it
		aspect := rapid.SampledFrom([]string{"type-order", "field-order", "partition", "partition", "mixed", "superset", "superset"}).Draw(t, "aspect")
		if aspect == "partition" && len(comps) < 2 {
			aspect = "type-order"
		}
		if aspect == "type-order" && n < 2 {
			aspect = "field-order"
		}
		if aspect == "type-order" || aspect == "mixed" {
			va.TypeOrder = rapid.Permutation(ident).Draw(t, "torder")
		}
		if aspect == "field-order" || aspect == "mixed" {
			va.FieldShuffle = rapid.Uint32Range(1, 1<<30).Draw(t, "fshuffle")
		}
		if aspect == "partition" || aspect == "mixed" {
			for k := range va.Groups {
				va.Groups[k] = rapid.IntRange(0, len(comps)-1).Draw(t, "group")
			}
		}
		if aspect == "superset" {
			ne := rapid.IntRange(1, 2).Draw(t, "nextra-types")
			for k := 0; k < ne; k++ {
				va.Extra = append(va.Extra, TypeDef{Name: namePerm[n+k], Scalars: []Scalar{{Name: newField("xs"), Type: rapid.SampledFrom(scalarTypes).Draw(t, "xstype")}}})
			}
			nr := rapid.IntRange(1, 3).Draw(t, "nextra-rels")
			for k := 0; k < nr; k++ {
				to := rapid.IntRange(0, n-1).Draw(t, "xto")
				if rapid.IntRange(0, 5).Draw(t, "xto-extra") == 0 {
					to = n + rapid.IntRange(0, ne-1).Draw(t, "xto2")
				}
				va.ExtraRels = append(va.ExtraRels, Rel{
					From: rapid.IntRange(0, ne-1).Draw(t, "xfrom"), To: to, Form: "os", F: newField("xf"),
					Explicit: rapid.Bool().Draw(t, "xexplicit"), Name: fmt.Sprintf("x%d", k),
				})
			}
			// the components change with the extra types: keep everything in one call
		}
		va.Reps = rapid.IntRange(1, 2).Draw(t, "reps")
		c.Variants = append(c.Variants, va)
	}
	c.XA = rapid.IntRange(0, nv-1).Draw(t, "xa")
	c.XB = rapid.IntRange(0, nv-1).Draw(t, "xb")
	c.XType = rapid.IntRange(0, n-1).Draw(t, "xtype")
	c.XSeed = rapid.IntRange(0, 50).Draw(t, "xseed")
	return c
}

// ---------------------------------------------------------------------------
// Model: fields, SDL, components, strongly connected components
// ---------------------------------------------------------------------------

// extend returns the case with the extra definitions of v appended (base types keep their indexes).
func (c SchemaCase) extend(v Variant) SchemaCase {
	if len(v.Extra) == 0 {
		return c
	}
	n := len(c.Types)
	e := c
	e.Types = append(append([]TypeDef{}, c.Types...), v.Extra...)
	e.Rels = append([]Rel{}, c.Rels...)
	for i := range e.Rels {
		e.Rels[i].From %= n
		e.Rels[i].To %= n
	}
	for _, r := range v.ExtraRels {
		r.Form = "os"
		r.B = ""
		r.From = n + r.From%len(v.Extra)
		r.To = r.To % len(e.Types)
		e.Rels = append(e.Rels, r)
	}
	return e
}

type fieldDef struct {
	name string
	text string // everything after "name: "
}

func (c SchemaCase) fieldsOf(ti int) []fieldDef {
	var out []fieldDef
	for _, s := range c.Types[ti].Scalars {
		out = append(out, fieldDef{s.Name, s.Type})
	}
	relDir := func(r Rel) string {
		if r.Name == "" {
			return ""
		}
		return fmt.Sprintf(" @relation(name: %q)", r.Name)
	}
	for _, r := range c.Rels {
		from, to := r.From%len(c.Types), r.To%len(c.Types)
		if from == ti {
			txt := c.Types[to].Name
			if r.Explicit || r.Form == "11" {
				txt += " @primary"
			}
			out = append(out, fieldDef{r.F, txt + relDir(r)})
		}
		if to == ti && r.Form != "os" && r.B != "" {
			txt := c.Types[from].Name
			if r.Form == "1n" {
				txt = "[" + txt + "]"
			}
			out = append(out, fieldDef{r.B, txt + relDir(r)})
		}
	}
	return out
}

// shuffle is a deterministic permutation driven by seed (0 = identity).
func shuffle[T any](xs []T, seed uint32) []T {
	out := append([]T{}, xs...)
	if seed == 0 {
		return out
	}
	s := uint64(seed)*2862933555777941757 + 3037000493
	for i := len(out) - 1; i > 0; i-- {
		s = s*6364136223846793005 + 1442695040888963407
		j := int((s >> 33) % uint64(i+1))
		out[i], out[j] = out[j], out[i]
	}
	return out
}

func (c SchemaCase) typeSDL(ti int, fieldShuffle uint32) string {
	var sb strings.Builder
	fmt.Fprintf(&sb, "type %s {\n", c.Types[ti].Name)
	fs := c.fieldsOf(ti)
	if fieldShuffle != 0 {
		fs = shuffle(fs, fieldShuffle+uint32(ti)*7919)
	}
	for _, f := range fs {
		fmt.Fprintf(&sb, "  %s: %s\n", f.name, f.text)
	}
	sb.WriteString("}\n")
	return sb.String()
}

// components returns the relation-connected components (lists of type indexes), ordered by smallest member.
func components(c SchemaCase) [][]int {
	n := len(c.Types)
	parent := make([]int, n)
	for i := range parent {
		parent[i] = i
	}
	var find func(int) int
	find = func(x int) int {
		if parent[x] != x {
			parent[x] = find(parent[x])
		}
		return parent[x]
	}
	for _, r := range c.Rels {
		a, b := find(r.From%n), find(r.To%n)
		if a != b {
			if a > b {
				a, b = b, a
			}
			parent[b] = a
		}
	}
	byRoot := map[int][]int{}
	var roots []int
	for i := 0; i < n; i++ {
		r := find(i)
		if _, ok := byRoot[r]; !ok {
			roots = append(roots, r)
		}
		byRoot[r] = append(byRoot[r], i)
	}
	sort.Ints(roots)
	out := make([][]int, 0, len(roots))
	for _, r := range roots {
		out = append(out, byRoot[r])
	}
	return out
}

// calls renders the AddSchema calls of a variant.
func (base SchemaCase) calls(v Variant) []string {
	c := base.extend(v)
	comps := components(c)
	n := len(c.Types)
	groupOf := make([]int, n)
	for k, comp := range comps {
		g := 0
		if k < len(v.Groups) {
			g = v.Groups[k]
		}
		for _, ti := range comp {
			groupOf[ti] = g
		}
	}
	order := v.TypeOrder
	if !isPerm(order, n) {
		order = make([]int, n)
		for i := range order {
			order[i] = i
		}
	}
	var groups []int
	seen := map[int]bool{}
	for _, g := range groupOf {
		if !seen[g] {
			seen[g] = true
			groups = append(groups, g)
		}
	}
	sort.Ints(groups)
	var out []string
	for _, g := range groups {
		var sb strings.Builder
		for _, ti := range order {
			if groupOf[ti] == g {
				sb.WriteString(c.typeSDL(ti, v.FieldShuffle))
			}
		}
		out = append(out, sb.String())
	}
	return out
}

func isPerm(p []int, n int) bool {
	if len(p) != n {
		return false
	}
	seen := make([]bool, n)
	for _, x := range p {
		if x < 0 || x >= n || seen[x] {
			return false
		}
		seen[x] = true
	}
	return true
}

// sccs returns the strongly connected components of a digraph over type names as a
// canonical partition: every part sorted, parts sorted by first member.
func sccs(names []string, adj map[string][]string) [][]string {
	index := map[string]int{}
	low := map[string]int{}
	on := map[string]bool{}
	var stack []string
	var out [][]string
	idx := 0
	var strong func(v string)
	strong = func(v string) {
		index[v] = idx
		low[v] = idx
		idx++
		stack = append(stack, v)
		on[v] = true
		for _, w := range adj[v] {
			if _, ok := index[w]; !ok {
				strong(w)
				if low[w] < low[v] {
					low[v] = low[w]
				}
			} else if on[w] && index[w] < low[v] {
				low[v] = index[w]
			}
		}
		if low[v] == index[v] {
			var comp []string
			for {
				w := stack[len(stack)-1]
				stack = stack[:len(stack)-1]
				on[w] = false
				comp = append(comp, w)
				if w == v {
					break
				}
			}
			sort.Strings(comp)
			out = append(out, comp)
		}
	}
	sorted := append([]string{}, names...)
	sort.Strings(sorted)
	for _, v := range sorted {
		if _, ok := index[v]; !ok {
			strong(v)
		}
	}
	sort.Slice(out, func(i, j int) bool { return out[i][0] < out[j][0] })
	return out
}

func partitionString(p [][]string) string {
	parts := make([]string, len(p))
	for i, x := range p {
		parts[i] = "{" + strings.Join(x, ",") + "}"
	}
	return strings.Join(parts, " ")
}

// primaryAdj is the primary relation graph of the case by type name.
func (c SchemaCase) primaryAdj() (names []string, adj map[string][]string) {
	adj = map[string][]string{}
	n := len(c.Types)
	for _, t := range c.Types {
		names = append(names, t.Name)
	}
	for _, r := range c.Rels {
		f, t := c.Types[r.From%n].Name, c.Types[r.To%n].Name
		adj[f] = append(adj[f], t)
	}
	return names, adj
}

// ---------------------------------------------------------------------------
// Running a variant
// ---------------------------------------------------------------------------

// TypeIDs is what a node reports for one type.
type TypeIDs struct {
	Version    string
	Collection string
	Root       string
	Desc       string   // canonical rendering of schema description + collection version
	RelOrder   []string // names of relation fields in the order of the schema description
}

type variantResult struct {
	errs  []string // one per call ("" = accepted)
	types map[string]TypeIDs
	node  *hx.Node // kept open only when asked
}

func (r variantResult) accepted() bool {
	for _, e := range r.errs {
		if e != "" {
			return false
		}
	}
	return true
}

var closers sync.WaitGroup

func runVariant(c SchemaCase, v Variant, keep bool) variantResult {
	n := hx.MustMemNode()
	res := variantResult{types: map[string]TypeIDs{}}
	for _, sdl := range c.calls(v) {
		_, err := n.DB.AddSchema(n.Ctx, sdl)
		if err != nil {
			res.errs = append(res.errs, err.Error())
		} else {
			res.errs = append(res.errs, "")
		}
	}
	cols, err := n.DB.GetCollections(n.Ctx, client.CollectionFetchOptions{IncludeInactive: immutable.Some(true)})
	if err != nil {
		n.Close()
		hx.Harnessf("GetCollections: %v", err)
	}
	for _, col := range cols {
		ver := col.Version()
		sch := col.Schema()
		sj, err1 := json.Marshal(sch)
		vj, err2 := json.Marshal(ver)
		if err1 != nil || err2 != nil {
			n.Close()
			hx.Harnessf("marshal description: %v %v", err1, err2)
		}
		var relOrder []string
		for _, f := range sch.Fields {
			if f.Kind != nil && f.Kind.IsObject() {
				relOrder = append(relOrder, f.Name)
			}
		}
		res.types[ver.Name] = TypeIDs{
			Version:    ver.VersionID,
			Collection: ver.CollectionID,
			Root:       sch.Root,
			Desc:       "schema=" + string(sj) + " version=" + string(vj),
			RelOrder:   relOrder,
		}
	}
	if keep {
		res.node = n
	} else {
		// closing takes ~15 ms of mostly waiting: overlap it with the next variant
		closers.Add(1)
		go func() {
			defer closers.Done()
			n.Close()
		}()
	}
	return res
}

// aspectOf names what distinguishes variant v from the base variant.
func aspectOf(c SchemaCase, v Variant) string {
	n := len(c.Types)
	var as []string
	multi := false
	for _, g := range v.Groups {
		if g != v.Groups[0] {
			multi = true
		}
	}
	if multi {
		as = append(as, "partition")
	}
	if isPerm(v.TypeOrder, n) {
		for i, x := range v.TypeOrder {
			if i != x {
				as = append(as, "type-order")
				break
			}
		}
	}
	if v.FieldShuffle != 0 {
		as = append(as, "field-order")
	}
	if len(v.Extra) > 0 {
		as = append(as, "superset")
	}
	switch len(as) {
	case 0:
		return "repetition"
	case 1:
		return as[0]
	}
	return "mixed"
}

// schemaOutcome carries what the property function needs for labels.
type schemaOutcome struct {
	failures     []*hx.Failure
	baseAccepted bool
	rejectedVar  int
	multiCall    bool
	nodes        int
	exchanged    bool
	baseErr      string
}

func runSchema(c SchemaCase) (out schemaOutcome) {
	if len(c.Types) == 0 || len(c.Variants) == 0 {
		return out
	}
	defer closers.Wait()
	fail := func(f *hx.Failure) { out.failures = append(out.failures, f) }

	var base variantResult
	bad := map[int]bool{}
	var supersets []struct {
		v   Variant
		res variantResult
	}
	for vi, v := range c.Variants {
		reps := v.Reps
		if reps < 1 {
			reps = 1
		}
		aspect := aspectOf(c, v)
		if len(c.calls(v)) > 1 {
			out.multiCall = true
		}
		var first variantResult
		for rep := 0; rep < reps; rep++ {
			res := runVariant(c, v, false)
			out.nodes++
			if rep == 0 {
				first = res
				continue
			}
			// S2: the identical call sequence must be answered identically
			if strings.Join(res.errs, "\x00") != strings.Join(first.errs, "\x00") {
				fail(hx.Failf("C13/schema/acceptance-nondeterministic",
					"the same AddSchema calls were answered differently in two fresh nodes: %q vs %q\ncalls:\n%s",
					first.errs, res.errs, strings.Join(c.calls(v), "----\n")))
				continue
			}
			if f := compareIDs(c, "repetition", first, res, v, v); f != nil {
				fail(f)
			}
		}
		if vi == 0 {
			base = first
			out.baseAccepted = first.accepted()
			if !out.baseAccepted {
				out.baseErr = strings.Join(first.errs, " | ")
			}
			continue
		}
		if !out.baseAccepted {
			continue
		}
		if !first.accepted() {
			// a variant the database rejects is not a variant
			out.rejectedVar++
			continue
		}
		// S1: identifiers equal to the base variant
		if f := compareIDs(c, aspect, base, first, c.Variants[0], v); f != nil {
			if aspect == "superset" && (strings.HasPrefix(f.Sig, "C13/schema/root-differs/") || strings.HasPrefix(f.Sig, "C13/schema/version-id-differs/")) {
				// diagnoser: the ids differ because the circular sets of the base types are grouped differently,
				// and that is fully explained by the inbound-relation reassignment in the superset variant
				if supersetExplainedByOverride(c, v, base, first) {
					f.Sig = sigSuperset
				}
			}
			fail(f)
			bad[vi] = true
		}
		if len(v.Extra) > 0 {
			supersets = append(supersets, struct {
				v   Variant
				res variantResult
			}{v, first})
		}
	}
	if !out.baseAccepted {
		return out
	}

	// S4: grouping of circular sets against the strongly connected components of the primary relation graph
	if f := checkGrouping(c, c.Variants[0], base); f != nil {
		fail(f)
	}
	for _, sr := range supersets {
		if f := checkGrouping(c, sr.v, sr.res); f != nil {
			fail(f)
		}
	}

	// S3: two nodes that added two variants can exchange documents
	nv := len(c.Variants)
	if !bad[c.XA%nv] && !bad[c.XB%nv] {
		ra := runVariant(c, c.Variants[c.XA%nv], true)
		defer ra.node.Close()
		rb := runVariant(c, c.Variants[c.XB%nv], true)
		defer rb.node.Close()
		out.nodes += 2
		if ra.accepted() && rb.accepted() {
			out.exchanged = true
			if f := exchange(c, ra.node, rb.node); f != nil {
				fail(f)
			}
		}
	}
	return out
}

func compareIDs(c SchemaCase, aspect string, a, b variantResult, va, vb Variant) *hx.Failure {
	names := make([]string, 0, len(c.Types))
	for _, t := range c.Types {
		names = append(names, t.Name)
	}
	sort.Strings(names)
	ctx := func() string {
		return fmt.Sprintf("\n--- variant A calls:\n%s--- variant B calls:\n%s", strings.Join(c.calls(va), "----\n"), strings.Join(c.calls(vb), "----\n"))
	}
	if len(a.types)-len(va.Extra) != len(b.types)-len(vb.Extra) {
		return hx.Failf("C13/schema/collections-differ/"+aspect, "%d collections vs %d%s", len(a.types), len(b.types), ctx())
	}
	for _, name := range names {
		_, okx := a.types[name]
		_, ok := b.types[name]
		if !ok || !okx {
			return hx.Failf("C13/schema/collections-differ/"+aspect, "type %s missing in one variant%s", name, ctx())
		}
	}
	// identifiers first (a differing id of one type changes the stored relation kinds of its neighbours)
	for _, name := range names {
		x, y := a.types[name], b.types[name]
		switch {
		case x.Root != y.Root:
			return hx.Failf("C13/schema/root-differs/"+aspect, "type %s: schema root %s vs %s (version %s vs %s)%s", name, x.Root, y.Root, x.Version, y.Version, ctx())
		case x.Version != y.Version:
			return hx.Failf("C13/schema/version-id-differs/"+aspect, "type %s: VersionID %s vs %s%s", name, x.Version, y.Version, ctx())
		case x.Collection != y.Collection:
			return hx.Failf("C13/schema/collection-id-differs/"+aspect, "type %s: CollectionID %s vs %s%s", name, x.Collection, y.Collection, ctx())
		}
	}
	for _, name := range names {
		x, y := a.types[name], b.types[name]
		if x.Desc != y.Desc {
			return hx.Failf("C13/schema/same-id-different-content/"+aspect, "type %s has VersionID %s in both variants but the stored descriptions differ:\n%s\n%s%s", name, x.Version, x.Desc, y.Desc, ctx())
		}
	}
	return nil
}

// ---------------------------------------------------------------------------
// S4: grouping
// ---------------------------------------------------------------------------

func idBase(id string) (base, suffix string) {
	if i := strings.LastIndex(id, "-"); i >= 0 {
		return id[:i], id[i+1:]
	}
	return id, ""
}

// observedGroups partitions type names by the base of their VersionID.
func observedGroups(r variantResult) [][]string {
	by := map[string][]string{}
	for name, t := range r.types {
		b, _ := idBase(t.Version)
		by[b] = append(by[b], name)
	}
	var out [][]string
	for _, g := range by {
		sort.Strings(g)
		out = append(out, g)
	}
	sort.Slice(out, func(i, j int) bool { return out[i][0] < out[j][0] })
	return out
}

// modelSets is a port of getSchemaSets/mapSchemaSetIDs (internal/db/schema_id.go) used only to
// *diagnose* a grouping discrepancy (the oracle is the SCC partition). Two behaviours of the
// original can be switched off to find out which of them explains a discrepancy:
//
//	slip:     removing the i-th relation (i>=1) of a schema also drops relation i-1
//	          (copy(schema.relations, old[:i-1]), observation 11)
//	override: a schema that does not lie on a circle with its relation assigns that relation a
//	          fresh set id even when the relation already belongs to a circular set
//
// rels holds, per schema name, the targets of its relation fields in schema-description order.
func modelSets(all []string, rels map[string][]string, slip, override bool) [][]string {
	m := map[string][]string{}
	for k, v := range rels {
		if len(v) > 0 {
			m[k] = append([]string{}, v...)
		}
	}
	names := make([]string, 0, len(m))
	for k := range m {
		names = append(names, k)
	}
	sort.Strings(names)
	for changed := true; changed; {
		changed = false
		for _, name := range names {
			rs, ok := m[name]
			if !ok {
				continue
			}
			for i, r := range rs {
				if _, in := m[r]; !in {
					nw := make([]string, len(rs)-1)
					if i > 0 {
						if slip {
							copy(nw, rs[:i-1])
						} else {
							copy(nw, rs[:i])
						}
					}
					copy(nw[i:], rs[i+1:])
					rs = nw
					m[name] = rs
					changed = true
					break
				}
			}
			if len(rs) == 0 {
				delete(m, name)
				changed = true
			}
		}
	}
	var circlesBack func(orig, cur string, seen map[string]bool) bool
	circlesBack = func(orig, cur string, seen map[string]bool) bool {
		if seen[cur] {
			return false
		}
		if cur == orig {
			return true
		}
		seen[cur] = true
		for _, r := range m[cur] {
			if circlesBack(orig, r, seen) {
				return true
			}
		}
		return false
	}
	circ := make([]string, 0, len(m))
	for k := range m {
		circ = append(circ, k)
	}
	sort.Strings(circ)
	i := 0
	setIDs := map[string]int{}
	hit := map[string]bool{}
	var walk func(name string)
	walk = func(name string) {
		if hit[name] {
			return
		}
		hit[name] = true
		for _, r := range m[name] {
			var id int
			if circlesBack(name, r, map[string]bool{}) {
				if x, ok := setIDs[r]; ok {
					id = x
				} else {
					sid, ok := setIDs[name]
					if !ok {
						i++
						sid = i
					}
					setIDs[name] = sid
					id = sid
				}
			} else if x, ok := setIDs[r]; ok && !override {
				id = x
			} else {
				i++
				id = i
			}
			setIDs[r] = id
			walk(r)
		}
	}
	for _, name := range circ {
		walk(name)
	}
	by := map[int][]string{}
	for _, name := range all {
		id, ok := setIDs[name]
		if !ok {
			i++
			id = i
		}
		by[id] = append(by[id], name)
	}
	var out [][]string
	for _, g := range by {
		sort.Strings(g)
		out = append(out, g)
	}
	sort.Slice(out, func(a, b int) bool { return out[a][0] < out[b][0] })
	return out
}

// orderedRels returns, per type name, the targets of its primary relation fields in the order
// of the stored schema description (the order getSchemaSets walks them in).
func orderedRels(c SchemaCase, res variantResult) map[string][]string {
	n := len(c.Types)
	fieldTarget := map[string]map[string]string{}
	for _, r := range c.Rels {
		f, t := c.Types[r.From%n].Name, c.Types[r.To%n].Name
		if fieldTarget[f] == nil {
			fieldTarget[f] = map[string]string{}
		}
		fieldTarget[f][r.F] = t
	}
	ordered := map[string][]string{}
	for name, t := range res.types {
		for _, fn := range t.RelOrder {
			if tgt, ok := fieldTarget[name][fn]; ok {
				ordered[name] = append(ordered[name], tgt)
			}
		}
	}
	return ordered
}

// restrict keeps only the given names in a partition.
func restrict(p [][]string, keep map[string]bool) [][]string {
	var out [][]string
	for _, g := range p {
		var ng []string
		for _, x := range g {
			if keep[x] {
				ng = append(ng, x)
			}
		}
		if len(ng) > 0 {
			out = append(out, ng)
		}
	}
	sort.Slice(out, func(a, b int) bool { return out[a][0] < out[b][0] })
	return out
}

// supersetExplainedByOverride decides whether an id difference between the base variant and a
// superset variant is fully accounted for by the inbound-relation reassignment: the model of the
// implementation reproduces the grouping of both variants, and with only that behaviour switched
// off the base types are grouped identically in both.
func supersetExplainedByOverride(c SchemaCase, v Variant, base, sup variantResult) bool {
	ec := c.extend(v)
	enames, _ := ec.primaryAdj()
	bnames, _ := c.primaryAdj()
	eord := orderedRels(ec, sup)
	bord := orderedRels(c, base)
	if partitionString(modelSets(enames, eord, true, true)) != partitionString(observedGroups(sup)) {
		return false
	}
	if partitionString(modelSets(bnames, bord, true, true)) != partitionString(observedGroups(base)) {
		return false
	}
	keep := map[string]bool{}
	for _, t := range c.Types {
		keep[t.Name] = true
	}
	return partitionString(restrict(modelSets(enames, eord, true, false), keep)) == partitionString(modelSets(bnames, bord, true, false))
}

// groupingCause compares the observed circular sets of c (an extended case) with the SCC partition.
// cause is "" when they agree, else "slip", "override", "slip+override" or "other".
func groupingCause(c SchemaCase, res variantResult) (want, got [][]string, cause string) {
	names, adj := c.primaryAdj()
	want = sccs(names, adj)
	got = observedGroups(res)
	if partitionString(want) == partitionString(got) {
		return want, got, ""
	}
	ordered := orderedRels(c, res)
	w, g := partitionString(want), partitionString(got)
	if partitionString(modelSets(names, ordered, true, true)) != g {
		return want, got, "other" // the model of the implementation does not reproduce the observation
	}
	switch {
	case partitionString(modelSets(names, ordered, false, true)) == w:
		return want, got, "slip"
	case partitionString(modelSets(names, ordered, true, false)) == w:
		return want, got, "override"
	case partitionString(modelSets(names, ordered, false, false)) == w:
		return want, got, "slip+override"
	}
	return want, got, "other"
}

const (
	sigSlip     = "C13/schema/grouping/cycle-not-grouped/relation-pruned-after-circular-relation"
	sigOverride = "C13/schema/grouping/cycle-not-grouped/inbound-relation-reassigns-member"
	sigBoth     = "C13/schema/grouping/cycle-not-grouped/pruned-relation+inbound-relation"
	sigSuperset = "C13/schema/id-differs/superset/inbound-relation-reassigns-member"
)

func checkGrouping(c SchemaCase, v Variant, res variantResult) *hx.Failure {
	ec := c.extend(v)
	want, got, cause := groupingCause(ec, res)
	if cause == "" {
		// the members of a circular set carry the index of their name-sorted position
		for _, g := range got {
			for i, name := range g {
				_, suf := idBase(res.types[name].Version)
				wantSuf := ""
				if len(g) > 1 {
					wantSuf = fmt.Sprint(i)
				}
				if suf != wantSuf {
					return hx.Failf("C13/schema/grouping/member-index", "type %s of set %v has VersionID %s, expected index suffix %q", name, g, res.types[name].Version, wantSuf)
				}
			}
		}
		return nil
	}
	detail := fmt.Sprintf("sets by VersionID base: %s; strongly connected components of the primary relation graph: %s\nSDL:\n%s",
		partitionString(got), partitionString(want), strings.Join(c.calls(v), "----\n"))
	switch cause {
	case "slip":
		return hx.Failf(sigSlip, "a relation cycle is not hashed as one set; explained by getSchemaSets dropping relation i-1 when it prunes relation i>=1 of a schema (copy(schema.relations, old[:i-1])). %s", detail)
	case "override":
		return hx.Failf(sigOverride, "a relation cycle is not hashed as one set; explained by mapSchemaSetIDs giving a member of an already found circle a fresh set id when a schema outside the circle (sorted later by name) has a relation to it. %s", detail)
	case "slip+override":
		return hx.Failf(sigBoth, "a relation cycle is not hashed as one set; explained only by both the pruning slip and the inbound-relation reassignment. %s", detail)
	}
	return hx.Failf("C13/schema/grouping/other", "%s", detail)
}

// ---------------------------------------------------------------------------
// S3: exchange
// ---------------------------------------------------------------------------

func scalarJSON(typ string, seed int) string {
	switch typ {
	case "String":
		return fmt.Sprintf("%q", fmt.Sprintf("s%d", seed))
	case "Int":
		return fmt.Sprint(seed - 7)
	case "Float":
		return fmt.Sprintf("%d.5", seed)
	case "Float32":
		return fmt.Sprintf("%d.25", seed)
	case "Boolean":
		return fmt.Sprint(seed%2 == 0)
	case "DateTime":
		return fmt.Sprintf("%q", fmt.Sprintf("2021-03-%02dT10:00:00.5Z", 1+seed%28))
	case "Blob":
		return fmt.Sprintf("%q", fmt.Sprintf("00ff%02x", seed))
	case "JSON":
		return fmt.Sprintf(`{"k":[%d,null,"x"]}`, seed)
	case "[Int!]":
		return fmt.Sprintf("[%d,2,2]", seed)
	case "[String]":
		return fmt.Sprintf(`["a",null,"%d"]`, seed)
	case "[Boolean!]":
		return "[true,false]"
	}
	hx.Harnessf("scalarJSON: unknown type %s", typ)
	return ""
}

func (c SchemaCase) docJSON(ti int, seed int, extra map[string]string) string {
	var parts []string
	for i, s := range c.Types[ti].Scalars {
		parts = append(parts, fmt.Sprintf("%q:%s", s.Name, scalarJSON(s.Type, seed+i)))
	}
	keys := make([]string, 0, len(extra))
	for k := range extra {
		keys = append(keys, k)
	}
	sort.Strings(keys)
	for _, k := range keys {
		parts = append(parts, fmt.Sprintf("%q:%q", k, extra[k]))
	}
	return "{" + strings.Join(parts, ",") + "}"
}

func (c SchemaCase) selection(ti int) string {
	sel := []string{"_docID"}
	for _, s := range c.Types[ti].Scalars {
		sel = append(sel, s.Name)
	}
	return strings.Join(sel, " ")
}

func exchange(c SchemaCase, a, b *hx.Node) *hx.Failure {
	n := len(c.Types)
	ti := c.XType % n
	tap := hx.NewEventTap(a)
	defer tap.Close()

	create := func(node *hx.Node, ti int, js string) (string, *hx.Failure) {
		col, err := node.DB.GetCollectionByName(node.Ctx, c.Types[ti].Name)
		if err != nil {
			return "", hx.Failf("C13/schema/exchange/collection-missing", "GetCollectionByName(%s): %v", c.Types[ti].Name, err)
		}
		doc, err := client.NewDocFromJSON([]byte(js), col.Definition())
		if err != nil {
			hx.Harnessf("exchange: NewDocFromJSON(%s) for %s: %v", js, c.Types[ti].Name, err)
		}
		if err := col.Create(node.Ctx, doc); err != nil {
			return "", hx.Failf("C13/schema/exchange/create-error", "create %s in %s: %v", js, c.Types[ti].Name, err)
		}
		return doc.ID().String(), nil
	}

	// a primary relation of the chosen type, if any: create the target first
	var rel *Rel
	for i := range c.Rels {
		if c.Rels[i].From%n == ti {
			rel = &c.Rels[i]
			break
		}
	}
	extra := map[string]string{}
	query := fmt.Sprintf("query { %s { %s } }", c.Types[ti].Name, c.selection(ti))
	if rel != nil {
		to := rel.To % n
		tid, f := create(a, to, c.docJSON(to, c.XSeed+11, nil))
		if f != nil {
			return f
		}
		extra[rel.F+"_id"] = tid
		query = fmt.Sprintf("query { %s { %s %s_id %s { %s } } }", c.Types[ti].Name, c.selection(ti), rel.F, rel.F, c.selection(to))
	}
	js := c.docJSON(ti, c.XSeed, extra)
	idA, f := create(a, ti, js)
	if f != nil {
		return f
	}
	// the same document built against B's definition must get the same id
	colB, err := b.DB.GetCollectionByName(b.Ctx, c.Types[ti].Name)
	if err != nil {
		return hx.Failf("C13/schema/exchange/collection-missing", "GetCollectionByName(%s) on the receiver: %v", c.Types[ti].Name, err)
	}
	docB, err := client.NewDocFromJSON([]byte(js), colB.Definition())
	if err != nil {
		hx.Harnessf("exchange: NewDocFromJSON on receiver: %v", err)
	}
	if docB.ID().String() != idA {
		return hx.Failf("C13/schema/exchange/docid-differs", "document %s of %s has id %s on the sender and %s on the receiver", js, c.Types[ti].Name, idA, docB.ID())
	}

	for _, u := range tap.Take() {
		if _, err := hx.CopyClosure(b.Ctx, a, b, u.Cid); err != nil {
			hx.Harnessf("copy closure: %v", err)
		}
		if err := b.DB.VerifMerge(b.Ctx, event.Merge{DocID: u.DocID, Cid: u.Cid, CollectionID: u.CollectionID}); err != nil {
			return hx.Failf("C13/schema/exchange/merge-error", "receiver rejected commit %s of doc %s (collection id %s): %v", u.Cid, u.DocID, u.CollectionID, err)
		}
	}
	ra, rb := a.Exec(query), b.Exec(query)
	if !ra.OK() {
		if ra.Panic != "" {
			return hx.Failf("C13/schema/exchange/query-panic", "%s on sender: %s", query, ra.Panic)
		}
		return hx.Failf("C13/schema/exchange/query-error", "%s on sender: %s", query, ra.Err())
	}
	if !rb.OK() {
		if rb.Panic != "" {
			return hx.Failf("C13/schema/exchange/query-panic", "%s on receiver: %s", query, rb.Panic)
		}
		return hx.Failf("C13/schema/exchange/query-error", "%s on receiver: %s", query, rb.Err())
	}
	rowsA, rowsB := hx.SortRows(ra.Rows(c.Types[ti].Name)), hx.SortRows(rb.Rows(c.Types[ti].Name))
	wantRows := 1
	if rel != nil && rel.To%n == ti {
		wantRows = 2
	}
	if len(rowsA) != wantRows {
		return hx.Failf("C13/schema/exchange/sender-rows", "sender shows %d rows after creating %d documents: %v", len(rowsA), wantRows, rowsA)
	}
	if strings.Join(rowsA, "\n") != strings.Join(rowsB, "\n") {
		return hx.Failf("C13/schema/exchange/dump-differs", "after delivery %s shows\n sender:   %v\n receiver: %v", query, rowsA, rowsB)
	}
	return nil
}
