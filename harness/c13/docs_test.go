package c13

import "github.com/sourcenetwork/defradb/verifharness/hx"

type DocCase struct{}

type docOutcome struct{ failures []*hx.Failure }

func runDoc(c DocCase) docOutcome { return docOutcome{} }
