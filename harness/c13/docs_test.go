package c13

import (
	"encoding/json"
	"fmt"
	"math"
	"sort"
	"strconv"
	"strings"
	"sync"
	"time"

	"github.com/sourcenetwork/immutable"
	"github.com/valyala/fastjson"
	"pgregory.net/rapid"

	"github.com/sourcenetwork/defradb/client"
	"github.com/sourcenetwork/defradb/internal/db"
	"github.com/sourcenetwork/defradb/verifharness/hx"
)

// ---------------------------------------------------------------------------
// Schema of the document domain
// ---------------------------------------------------------------------------

type docField struct {
	Name string
	Kind string // str int pint f64 f32 bool time blob json docid | a<k> (non-nillable elements) | an<k> (nillable elements)
	GQL  string
}

var docFields = []docField{
	{"s", "str", "String"}, {"i", "int", "Int"}, {"f", "f64", "Float"}, {"g", "f32", "Float32"}, {"b", "bool", "Boolean"},
	{"t", "time", "DateTime"}, {"bl", "blob", "Blob"}, {"j", "json", "JSON"},
	{"ai", "aint", "[Int!]"}, {"ani", "anint", "[Int]"}, {"as", "astr", "[String!]"}, {"ans", "anstr", "[String]"},
	{"ab", "abool", "[Boolean!]"}, {"anb", "anbool", "[Boolean]"}, {"af", "af64", "[Float!]"}, {"anf", "anf64", "[Float]"},
	{"pn", "int", "Int @crdt(type: pncounter)"}, {"pc", "pint", "Int @crdt(type: pcounter)"}, {"pf", "f64", "Float @crdt(type: pncounter)"},
	{"boss_id", "docid", ""},
}

func docSDL(typeName string, order []int, extra string) string {
	var sb strings.Builder
	fmt.Fprintf(&sb, "type %s {\n", typeName)
	for _, i := range order {
		f := docFields[i]
		if f.Kind == "docid" {
			fmt.Fprintf(&sb, "  boss: %s @primary\n", typeName)
			continue
		}
		fmt.Fprintf(&sb, "  %s: %s\n", f.Name, f.GQL)
	}
	sb.WriteString(extra)
	sb.WriteString("}\n")
	return sb.String()
}

// ---------------------------------------------------------------------------
// Values
// ---------------------------------------------------------------------------

// V is one field value, independent of the route that writes it.
type V struct {
	Null bool    `json:"null,omitempty"`
	S    string  `json:"s,omitempty"` // str, time (RFC 3339 text), blob (hex), json (JSON text), docid
	I    int64   `json:"i,omitempty"`
	F    float64 `json:"f,omitempty"`  // f64; f32 holds a value exactly representable as float32
	NZ   bool    `json:"nz,omitempty"` // the float is negative zero (F==0 would be dropped by omitempty)
	B    bool    `json:"b,omitempty"`
	A    []V     `json:"a,omitempty"`
	Arr  bool    `json:"arr,omitempty"` // distinguishes the empty array from a scalar
}

// fl is the float value (negative zero is carried by the NZ flag so that it survives the replay file).
func (v V) fl() float64 {
	if v.NZ {
		return math.Copysign(0, -1)
	}
	return v.F
}

func mkFloat(f float64) V {
	if f == 0 && math.Signbit(f) {
		return V{NZ: true}
	}
	return V{F: f}
}

// floatText renders f as a JSON number. All styles denote exactly f (round-trip digits):
//
//	0  what encoding/json prints for the Go value ("-0", "5", "100", "1e+21", "123456789")
//	1  strconv 'g' shortest ("1e+06", "1e+21")
//	2  plain decimal without exponent ("1000000000000000000000", "0.0000001"), only for moderate magnitudes
func floatText(f float64, style int) string {
	switch style % 3 {
	case 1:
		return strconv.FormatFloat(f, 'g', -1, 64)
	case 2:
		if a := math.Abs(f); a == 0 || (a >= 1e-9 && a < 1e25) {
			return strconv.FormatFloat(f, 'f', -1, 64)
		}
	}
	b, err := json.Marshal(f)
	if err != nil {
		hx.Harnessf("floatText(%v): %v", f, err)
	}
	return string(b)
}

func elemKind(kind string) (elem string, nillable bool, isArr bool) {
	switch {
	case strings.HasPrefix(kind, "an"):
		return kind[2:], true, true
	case strings.HasPrefix(kind, "a"):
		return kind[1:], false, true
	}
	return kind, false, false
}

// jsonText renders v as the JSON literal used on the JSON route (and, for scalars, the GraphQL route).
func jsonText(kind string, v V, style int) string {
	if v.Null {
		return "null"
	}
	if ek, _, isArr := elemKind(kind); isArr {
		parts := make([]string, len(v.A))
		for i, e := range v.A {
			parts[i] = jsonText(ek, e, style)
		}
		return "[" + strings.Join(parts, ",") + "]"
	}
	switch kind {
	case "str", "time", "blob", "docid":
		b, _ := json.Marshal(v.S)
		return string(b)
	case "int", "pint":
		return strconv.FormatInt(v.I, 10)
	case "f64", "f32":
		return floatText(v.fl(), style)
	case "bool":
		return strconv.FormatBool(v.B)
	case "json":
		return v.S
	}
	hx.Harnessf("jsonText: kind %s", kind)
	return ""
}

// gqlJSONLiteral renders a decoded JSON value as a GraphQL input literal (object keys unquoted).
func gqlJSONLiteral(x any) string {
	switch t := x.(type) {
	case nil:
		return "null"
	case map[string]any:
		keys := make([]string, 0, len(t))
		for k := range t {
			keys = append(keys, k)
		}
		sort.Strings(keys)
		parts := make([]string, len(keys))
		for i, k := range keys {
			parts[i] = k + ": " + gqlJSONLiteral(t[k])
		}
		return "{" + strings.Join(parts, ", ") + "}"
	case []any:
		parts := make([]string, len(t))
		for i, e := range t {
			parts[i] = gqlJSONLiteral(e)
		}
		return "[" + strings.Join(parts, ", ") + "]"
	case json.Number:
		// A GraphQL integer literal is a 32-bit Int without a sign of zero: JSON integers outside
		// that range and the JSON number -0 are written as float literals.
		txt := t.String()
		if !strings.ContainsAny(txt, ".eE") {
			if i, err := strconv.ParseInt(txt, 10, 64); err != nil || i < math.MinInt32 || i > math.MaxInt32 || (i == 0 && strings.HasPrefix(txt, "-")) {
				return txt + ".0"
			}
		}
		return txt
	default:
		b, _ := json.Marshal(t)
		return string(b)
	}
}

func gqlText(kind string, v V, style int) string {
	if v.Null {
		return "null"
	}
	if ek, _, isArr := elemKind(kind); isArr {
		parts := make([]string, len(v.A))
		for i, e := range v.A {
			parts[i] = gqlText(ek, e, style)
		}
		return "[" + strings.Join(parts, ", ") + "]"
	}
	if kind == "json" {
		return gqlJSONLiteral(hx.ParseJSON(v.S))
	}
	return jsonText(kind, v, style)
}

// goValue renders v for the NewDocFromMap route; typing selects between Go types the document
// layer documents as accepted for the kind.
func goValue(kind string, v V, typing int) any {
	if v.Null {
		return nil
	}
	if ek, nillable, isArr := elemKind(kind); isArr {
		if typing%2 == 1 {
			switch ek {
			case "int":
				if nillable {
					out := make([]immutable.Option[int64], len(v.A))
					for i, e := range v.A {
						if !e.Null {
							out[i] = immutable.Some(e.I)
						}
					}
					return out
				}
				out := make([]int64, len(v.A))
				for i, e := range v.A {
					out[i] = e.I
				}
				return out
			case "str":
				if nillable {
					out := make([]immutable.Option[string], len(v.A))
					for i, e := range v.A {
						if !e.Null {
							out[i] = immutable.Some(e.S)
						}
					}
					return out
				}
				out := make([]string, len(v.A))
				for i, e := range v.A {
					out[i] = e.S
				}
				return out
			case "bool":
				if nillable {
					out := make([]immutable.Option[bool], len(v.A))
					for i, e := range v.A {
						if !e.Null {
							out[i] = immutable.Some(e.B)
						}
					}
					return out
				}
				out := make([]bool, len(v.A))
				for i, e := range v.A {
					out[i] = e.B
				}
				return out
			case "f64":
				if nillable {
					out := make([]immutable.Option[float64], len(v.A))
					for i, e := range v.A {
						if !e.Null {
							out[i] = immutable.Some(e.fl())
						}
					}
					return out
				}
				out := make([]float64, len(v.A))
				for i, e := range v.A {
					out[i] = e.fl()
				}
				return out
			}
		}
		out := make([]any, len(v.A))
		for i, e := range v.A {
			out[i] = goValue(ek, e, typing/2)
		}
		return out
	}
	switch kind {
	case "str", "time", "blob", "docid":
		return v.S
	case "int", "pint":
		switch typing % 3 {
		case 1:
			if v.I >= math.MinInt32 && v.I <= math.MaxInt32 {
				return int(v.I)
			}
		case 2:
			if v.I > -(1<<53) && v.I < 1<<53 {
				return float64(v.I)
			}
		}
		return v.I
	case "f64":
		if typing%2 == 1 && !v.NZ && v.F == math.Trunc(v.F) && math.Abs(v.F) < 1<<53 {
			return int64(v.F) // an integer has no negative zero: -0 is always handed over as a float
		}
		return v.fl()
	case "f32":
		if typing%2 == 1 {
			return v.fl() // float64 holding the exact float32 value
		}
		return float32(v.fl())
	case "bool":
		return v.B
	case "json":
		var x any
		if err := json.Unmarshal([]byte(v.S), &x); err != nil {
			hx.Harnessf("bad JSON value %q: %v", v.S, err)
		}
		return x
	}
	hx.Harnessf("goValue: kind %s", kind)
	return nil
}

// gqlExpressible: GraphQL Int literals are 32-bit.
func gqlExpressible(kind string, v V) bool {
	if v.Null {
		return true
	}
	if ek, _, isArr := elemKind(kind); isArr {
		for _, e := range v.A {
			if !gqlExpressible(ek, e) {
				return false
			}
		}
		return true
	}
	if kind == "int" || kind == "pint" {
		return v.I >= math.MinInt32 && v.I <= math.MaxInt32
	}
	return true
}

var (
	strPool   = []string{"", "a", "b", "ab", "é", "日本", "a\"b", "a\\b", "line\nbreak", "tab\there", " ", "null", "0", "<&>", strings.Repeat("x", 300)}
	intPool   = []int64{0, 1, -1, 2, 7, 100, -100, math.MaxInt32, math.MinInt32, 1 << 31, -(1 << 31) - 1, 1<<53 - 1, 1 << 53, 1<<53 + 1, math.MaxInt64, math.MinInt64}
	negZero   = math.Copysign(0, -1)
	f64Pool   = []float64{negZero, negZero, 5, -7, 100, 1e20, 1e22, 123456789, 4294967296, 1e15, 0, 1, -1, 1.5, 0.1, -0.1, 0.30000000000000004, 1e21, 1e-7, 123456.789, 1e6, 999999, math.MaxFloat64, math.SmallestNonzeroFloat64, 1.0 / 3, 9007199254740993, 2.5e-300}
	f32Pool   = []float32{float32(negZero), float32(negZero), 5, 100, 1e20, 123456792, 0, 1, -1, 1.5, 0.1, 0.25, 3.4028235e38, 1e-45, 16777216, 16777217, 1.0 / 3}
	timePool  = []string{"2020-01-02T03:04:05Z", "2020-01-02T03:04:05.123456789Z", "2020-01-02T03:04:05.5Z", "2020-01-02T03:04:05.500Z", "2020-01-02T03:04:05+02:00", "2020-01-02T01:04:05-07:00", "1955-11-05T06:15:00Z", "9999-12-31T23:59:59.999999999Z", "0001-01-01T00:00:01Z", "1970-01-01T00:00:00Z", "2020-01-02T03:04:05+00:00"}
	blobPool  = []string{"00", "ff", "00FF", "00ff", "deadbeef", "0000", "ab"}
	jsonPool  = []string{`-0`, `{"a":-0}`, `[-0,0,-0.0]`, `5`, `1e2`, `1e21`, `1000000000000000000000`, `{"n":4294967296,"m":-2147483649}`, `1`, `0`, `1.5`, `"x"`, `""`, `true`, `false`, `{}`, `[]`, `{"a":1}`, `{"b":1,"a":2}`, `{"a":2,"b":1}`, `{"a":{"b":[1,2,{"c":null}]}}`, `[1,"a",null]`, `[[],{}]`, `{"k":"v","n":null}`, `[0.5,-3,100000]`}
	docidPool = []string{"bae-4de24838-2abe-536d-8b1d-14b9390d3035", "bae-2c858ec3-8dc6-5ab0-ae18-24970ed8bf24", "bae-27aad000-bdde-59d1-9b45-8d77a67948a4"}
)

func genScalar(t *rapid.T, kind string) V {
	switch kind {
	case "str":
		if rapid.IntRange(0, 3).Draw(t, "strmode") == 0 {
			return V{S: rapid.StringOfN(rapid.RuneFrom([]rune("abcxyz 0189_-/%éß日")), 0, 12, -1).Draw(t, "str")}
		}
		return V{S: rapid.SampledFrom(strPool).Draw(t, "strp")}
	case "int":
		switch rapid.IntRange(0, 5).Draw(t, "intmode") {
		case 0:
			return V{I: rapid.SampledFrom(intPool).Draw(t, "intp")}
		case 1:
			return V{I: rapid.Int64().Draw(t, "int64")}
		}
		return V{I: int64(rapid.Int32().Draw(t, "int32"))}
	case "pint":
		if rapid.IntRange(0, 7).Draw(t, "pintmode") == 0 {
			return V{I: rapid.Int64Range(1, math.MaxInt64).Draw(t, "pint64")}
		}
		return V{I: int64(rapid.Int32Range(0, math.MaxInt32).Draw(t, "pint32"))}
	case "f64":
		var f float64
		if rapid.Bool().Draw(t, "f64mode") {
			f = rapid.SampledFrom(f64Pool).Draw(t, "f64p")
		} else {
			f = rapid.Float64().Draw(t, "f64")
		}
		if math.IsNaN(f) || math.IsInf(f, 0) {
			f = 0 // NaN/Inf are not JSON
		}
		return mkFloat(f)
	case "f32":
		var f float32
		if rapid.Bool().Draw(t, "f32mode") {
			f = rapid.SampledFrom(f32Pool).Draw(t, "f32p")
		} else {
			f = rapid.Float32().Draw(t, "f32")
		}
		if f != f || math.IsInf(float64(f), 0) {
			f = 0
		}
		return mkFloat(float64(f))
	case "bool":
		return V{B: rapid.Bool().Draw(t, "bool")}
	case "time":
		return V{S: rapid.SampledFrom(timePool).Draw(t, "time")}
	case "blob":
		if rapid.IntRange(0, 2).Draw(t, "blobmode") == 0 {
			bs := rapid.SliceOfN(rapid.Byte(), 1, 6).Draw(t, "blob")
			return V{S: fmt.Sprintf("%x", bs)}
		}
		return V{S: rapid.SampledFrom(blobPool).Draw(t, "blobp")}
	case "json":
		return V{S: rapid.SampledFrom(jsonPool).Draw(t, "json")}
	case "docid":
		return V{S: rapid.SampledFrom(docidPool).Draw(t, "docid")}
	}
	hx.Harnessf("genScalar: kind %s", kind)
	return V{}
}

func genValue(t *rapid.T, kind string) V {
	ek, nillable, isArr := elemKind(kind)
	if !isArr {
		return genScalar(t, kind)
	}
	n := rapid.IntRange(0, 4).Draw(t, "alen")
	v := V{Arr: true}
	for i := 0; i < n; i++ {
		if nillable && rapid.IntRange(0, 3).Draw(t, "enull") == 0 {
			v.A = append(v.A, V{Null: true})
			continue
		}
		v.A = append(v.A, genScalar(t, ek))
	}
	return v
}

// mutate returns a value of the same kind that denotes different content, and the name of the change.
func mutate(kind string, v V, how int) (V, string) {
	if ek, nillable, isArr := elemKind(kind); isArr {
		w := V{Arr: true, A: append([]V{}, v.A...)}
		n := len(w.A)
		mode := how % 4
		if n == 0 {
			mode = 1
		}
		switch mode {
		case 0: // change one element's value
			k := (how / 4) % n
			if w.A[k].Null {
				w.A[k] = zeroOf(ek)
				return w, "element-null-to-value"
			}
			w.A[k], _ = mutate(ek, w.A[k], how/16)
			return w, "element-value"
		case 1:
			w.A = append(w.A, zeroOf(ek))
			return w, "append"
		case 2:
			w.A = w.A[:n-1]
			return w, "remove-last"
		default:
			k := (how / 4) % n
			if nillable && !w.A[k].Null {
				w.A[k] = V{Null: true}
				return w, "element-value-to-null"
			}
			if n >= 2 && jsonText(ek, w.A[0], 0) != jsonText(ek, w.A[n-1], 0) {
				w.A[0], w.A[n-1] = w.A[n-1], w.A[0]
				return w, "swap-elements"
			}
			w.A = append(w.A, zeroOf(ek))
			return w, "append"
		}
	}
	w := v
	if kind == "f64" || kind == "f32" {
		w.NZ = false
		v.F = v.fl()
	}
	switch kind {
	case "str":
		w.S = v.S + "x"
		return w, "value"
	case "int", "pint":
		if v.I == math.MaxInt64 {
			w.I = v.I - 1
		} else {
			w.I = v.I + 1
		}
		return w, "value"
	case "f64":
		if how%2 == 0 {
			w.F = math.Nextafter(v.F, math.Inf(1))
			if math.IsInf(w.F, 0) {
				w.F = math.Nextafter(v.F, 0)
			}
			return w, "value-1ulp"
		}
		w.F = v.F + 1
		if w.F == v.F {
			w.F = v.F / 2
		}
		if w.F == 0 {
			w.F = 1
		}
		return w, "value"
	case "f32":
		f := math.Nextafter32(float32(v.F), float32(math.Inf(1)))
		if math.IsInf(float64(f), 0) {
			f = math.Nextafter32(float32(v.F), 0)
		}
		w.F = float64(f)
		return w, "value-1ulp"
	case "bool":
		w.B = !v.B
		return w, "value"
	case "time":
		// a different instant: another pool entry that does not denote the same instant
		for k := 0; k < len(timePool); k++ {
			cand := timePool[(how+k)%len(timePool)]
			if !sameInstant(cand, v.S) {
				w.S = cand
				return w, "value"
			}
		}
	case "blob":
		w.S = v.S + "00"
		return w, "value"
	case "json":
		w.S = "[" + v.S + "]"
		return w, "value"
	case "docid":
		for k := 0; k < len(docidPool); k++ {
			if cand := docidPool[(how+k)%len(docidPool)]; cand != v.S {
				w.S = cand
				return w, "value"
			}
		}
	}
	hx.Harnessf("mutate: kind %s", kind)
	return w, ""
}

func zeroOf(kind string) V {
	switch kind {
	case "str":
		return V{S: "z"}
	case "int", "pint":
		return V{I: 4}
	case "f64", "f32":
		return V{F: 4.5}
	case "bool":
		return V{B: true}
	}
	hx.Harnessf("zeroOf: kind %s", kind)
	return V{}
}

func parseRFC3339(s string) (time.Time, error) { return time.Parse(time.RFC3339, s) }

func sameInstant(a, b string) bool {
	ta, err1 := parseRFC3339(a)
	tb, err2 := parseRFC3339(b)
	return err1 == nil && err2 == nil && ta.Equal(tb)
}

// jsonMisparses reports whether the JSON parser used by NewDocFromJSON (valyala/fastjson) turns the
// shortest decimal text of f into a different float64 than strconv.ParseFloat does. Used only by
// diagnosers and by the generator switch that avoids the known finding.
func jsonMisparses(f float64) bool {
	txt := strconv.FormatFloat(f, 'g', -1, 64)
	v, err := fastjson.Parse(txt)
	if err != nil {
		return false
	}
	g, err := v.Float64()
	return err == nil && g != f
}

// inexactFloatFields lists the fields of the assignment that hold a float the JSON route misparses.
func inexactFloatFields(vals []V) map[int]bool {
	out := map[int]bool{}
	for i, f := range docFields {
		ek, _, isArr := elemKind(f.Kind)
		if ek != "f64" && ek != "f32" {
			continue
		}
		v := vals[i]
		if v.Null {
			continue
		}
		if isArr {
			for _, e := range v.A {
				if !e.Null && jsonMisparses(e.fl()) {
					out[i] = true
				}
			}
		} else if jsonMisparses(v.fl()) {
			out[i] = true
		}
	}
	return out
}

const (
	sigFloatID     = "C13/doc/docid-differs/json-route-parses-float-text-1ulp-off"
	sigFloatCommit = "C13/doc/genesis-cid-differs/json-route-parses-float-text-1ulp-off"
	sigNillableArr = "C13/doc/docid-ignores-change/array-of-nillable-elements/length-preserving-change"
)

// ---------------------------------------------------------------------------
// Case
// ---------------------------------------------------------------------------

// Route is one way of building the document.
type Route struct {
	// Kind: json | map | gqlA | gqlB | colB | setB | setGenB. The set routes build the document in two
	// steps on node B: NewDocFromJSON with the first Split fields of Order, SetWithJSON with the rest,
	// then Collection.Create - directly (setB: the stale identifier of the partial content must not be
	// used; being refused with a verification error is fine) or after GenerateAndSetDocID (setGenB).
	Kind     string `json:"kind"`
	Split    int    `json:"split,omitempty"`
	Order    []int  `json:"order"`    // permutation of the field indexes (key order of the input)
	Explicit []bool `json:"explicit"` // per field: a null value is written as null (true) or the key is omitted
	Typing   int    `json:"typing,omitempty"`
	// FloatStyle selects the decimal text used for floats on the text routes (see floatText)
	FloatStyle int `json:"float_style,omitempty"`
}

// DocCase is one value assignment and the routes to compare.
type DocCase struct {
	Vals   []V     `json:"vals"`
	Alt    []V     `json:"alt"` // non-null alternative per field (used when the mutated field is null)
	Routes []Route `json:"routes"`
	Mut    int     `json:"mut"`
	MutHow int     `json:"mut_how"`
	// AvoidKnown: generator switches that avoid the triggers of known findings were applied
	AvoidKnown bool `json:"avoid_known,omitempty"`
}

func drawDocCase(t *rapid.T) DocCase {
	var c DocCase
	nullPct := rapid.SampledFrom([]int{10, 35, 35, 60, 90}).Draw(t, "nullpct")
	for _, f := range docFields {
		v := genValue(t, f.Kind)
		alt := genValue(t, f.Kind)
		if rapid.IntRange(0, 99).Draw(t, "isnull") < nullPct {
			v = V{Null: true}
		}
		c.Vals = append(c.Vals, v)
		c.Alt = append(c.Alt, alt)
	}
	ident := make([]int, len(docFields))
	for i := range ident {
		ident[i] = i
	}
	for _, k := range []string{"json", "json", "map", "gqlA", "gqlB", "colB", "setB", "setGenB"} {
		r := Route{Kind: k, Order: rapid.Permutation(ident).Draw(t, "order"), Typing: rapid.IntRange(0, 11).Draw(t, "typing"), FloatStyle: rapid.IntRange(0, 2).Draw(t, "floatstyle")}
		if strings.HasPrefix(k, "set") {
			r.Split = rapid.IntRange(0, len(docFields)-1).Draw(t, "split")
		}
		r.Explicit = make([]bool, len(docFields))
		mode := rapid.IntRange(0, 3).Draw(t, "nullmode")
		for i := range r.Explicit {
			switch mode {
			case 0:
				r.Explicit[i] = false
			case 1:
				r.Explicit[i] = true
			default:
				r.Explicit[i] = rapid.Bool().Draw(t, "explicit")
			}
		}
		c.Routes = append(c.Routes, r)
	}
	c.Mut = rapid.IntRange(0, len(docFields)-1).Draw(t, "mut")
	c.MutHow = rapid.IntRange(0, 255).Draw(t, "muthow")
	if rapid.Bool().Draw(t, "avoid-known") {
		// search past known findings: half of the cases avoid their triggers by construction
		c.AvoidKnown = true
		if rec.IsKnown(sigFloatID) || rec.IsKnown(sigFloatCommit) {
			fix := func(v *V) {
				if !v.Null && jsonMisparses(v.fl()) {
					v.F = 0.5
				}
			}
			for i, f := range docFields {
				if ek, _, _ := elemKind(f.Kind); ek == "f64" || ek == "f32" {
					for _, vals := range [][]V{c.Vals, c.Alt} {
						fix(&vals[i])
						for k := range vals[i].A {
							fix(&vals[i].A[k])
						}
					}
				}
			}
		}
		if rec.IsKnown(sigHeadsPrefix) {
			// the first two fields by name (ids 1 and 2) are the ones whose head scan picks up ids 10..19 / 20
			for i, f := range docFields {
				if f.Name == "ab" || f.Name == "af" {
					c.Vals[i] = V{Null: true}
					for r := range c.Routes {
						c.Routes[r].Explicit[i] = false
					}
					if c.Mut == i {
						c.Mut = 0
					}
				}
			}
		}
		if rec.IsKnown(sigNillableArr) {
			if _, nillable, isArr := elemKind(docFields[c.Mut].Kind); isArr && nillable {
				c.Mut = (c.Mut + 7) % len(docFields) // ani->pn, ans->pf, anb->i(wraps), anf->s ... any non-nillable-array field
				if _, n2, a2 := elemKind(docFields[c.Mut].Kind); a2 && n2 {
					c.Mut = 0
				}
			}
		}
	}
	return c
}

// ---------------------------------------------------------------------------
// Nodes of the document domain (booted once per process)
// ---------------------------------------------------------------------------

type docEnvT struct {
	a, b, c       *hx.Node
	defA, defA2   client.CollectionDefinition
	defB, defC    client.CollectionDefinition
	colB          client.Collection
	rootsDisagree string
}

var (
	docEnvMu sync.Mutex
	docEnv   *docEnvT
)

func getDocEnv() *docEnvT {
	docEnvMu.Lock()
	defer docEnvMu.Unlock()
	if docEnv != nil {
		return docEnv
	}
	func() {
		e := &docEnvT{}
		ident := make([]int, len(docFields))
		rev := make([]int, len(docFields))
		for i := range ident {
			ident[i] = i
			rev[i] = len(docFields) - 1 - i
		}
		add := func(n *hx.Node, sdl string) {
			if _, err := n.DB.AddSchema(n.Ctx, sdl); err != nil {
				hx.Harnessf("document schema rejected: %v\n%s", err, sdl)
			}
		}
		def := func(n *hx.Node, name string) client.CollectionDefinition {
			col, err := n.DB.GetCollectionByName(n.Ctx, name)
			if err != nil {
				hx.Harnessf("GetCollectionByName(%s): %v", name, err)
			}
			return col.Definition()
		}
		e.a = hx.MustMemNode()
		add(e.a, docSDL("Users", ident, "")+docSDL("Users2", ident, ""))
		e.b = hx.MustMemNode()
		// same definitions, other type order, other field order, two calls
		add(e.b, docSDL("Users2", rev, ""))
		add(e.b, docSDL("Users", rev, ""))
		e.c = hx.MustMemNode()
		add(e.c, docSDL("Users", ident, "  zz: Int\n"))
		e.defA, e.defA2 = def(e.a, "Users"), def(e.a, "Users2")
		e.defB, e.defC = def(e.b, "Users"), def(e.c, "Users")
		colB, err := e.b.DB.GetCollectionByName(e.b.Ctx, "Users")
		if err != nil {
			hx.Harnessf("GetCollectionByName: %v", err)
		}
		e.colB = colB
		if e.defA.Schema.Root != e.defB.Schema.Root || e.defA.Version.VersionID != e.defB.Version.VersionID {
			e.rootsDisagree = fmt.Sprintf("node A: root %s version %s; node B: root %s version %s", e.defA.Schema.Root, e.defA.Version.VersionID, e.defB.Schema.Root, e.defB.Version.VersionID)
		}
		docEnv = e
	}()
	return docEnv
}

func closeDocEnv() {
	docEnvMu.Lock()
	defer docEnvMu.Unlock()
	if docEnv != nil {
		docEnv.a.Close()
		docEnv.b.Close()
		docEnv.c.Close()
		docEnv = nil
	}
}

// ---------------------------------------------------------------------------
// Routes
// ---------------------------------------------------------------------------

func (c DocCase) fixed() DocCase {
	n := len(docFields)
	for len(c.Vals) < n {
		c.Vals = append(c.Vals, V{Null: true})
	}
	for len(c.Alt) < n {
		c.Alt = append(c.Alt, zeroAlt(docFields[len(c.Alt)].Kind))
	}
	return c
}

func zeroAlt(kind string) V {
	if ek, _, isArr := elemKind(kind); isArr {
		return V{Arr: true, A: []V{zeroOf(ek)}}
	}
	switch kind {
	case "time":
		return V{S: timePool[0]}
	case "blob":
		return V{S: "00"}
	case "json":
		return V{S: "1"}
	case "docid":
		return V{S: docidPool[0]}
	}
	return zeroOf(kind)
}

func (r Route) order() []int {
	if isPerm(r.Order, len(docFields)) {
		return r.Order
	}
	out := make([]int, len(docFields))
	for i := range out {
		out[i] = i
	}
	return out
}

func (r Route) explicit(i int) bool { return i < len(r.Explicit) && r.Explicit[i] }

func jsonDoc(vals []V, r Route) string {
	var parts []string
	for _, i := range r.order() {
		v := vals[i]
		if v.Null && !r.explicit(i) {
			continue
		}
		parts = append(parts, fmt.Sprintf("%q:%s", docFields[i].Name, jsonText(docFields[i].Kind, v, r.FloatStyle)))
	}
	return "{" + strings.Join(parts, ",") + "}"
}

func gqlInput(vals []V, r Route) string {
	var parts []string
	for _, i := range r.order() {
		v := vals[i]
		if v.Null && !r.explicit(i) {
			continue
		}
		parts = append(parts, fmt.Sprintf("%s: %s", docFields[i].Name, gqlText(docFields[i].Kind, v, r.FloatStyle)))
	}
	return "{" + strings.Join(parts, ", ") + "}"
}

func mapDoc(vals []V, r Route) map[string]any {
	m := map[string]any{}
	for _, i := range r.order() {
		v := vals[i]
		if v.Null && !r.explicit(i) {
			continue
		}
		m[docFields[i].Name] = goValue(docFields[i].Kind, v, r.Typing)
	}
	return m
}

type routeResult struct {
	// refused: the route declined to store the document (allowed outcome of setB); not compared
	refused bool
	name    string
	id      string
	commits string // canonical list of (fieldName, cid, height) of the genesis commits, "" when not observed
	err     string
}

func commitsOf(ctxNode *hx.Node, ex hx.Execer, id string) string {
	r := hx.ExecOn(ctxNode.Ctx, ex, fmt.Sprintf(`query { commits(docID: %q) { cid fieldName height links { cid name } } }`, id))
	if !r.OK() {
		return "error: " + r.Err() + r.Panic
	}
	return strings.Join(hx.SortRows(r.Rows("commits")), "\n")
}

func runRoute(e *docEnvT, vals []V, r Route) routeResult {
	res := routeResult{name: r.Kind}
	switch r.Kind {
	case "json":
		d, err := client.NewDocFromJSON([]byte(jsonDoc(vals, r)), e.defA)
		if err != nil {
			res.err = err.Error()
			return res
		}
		res.id = d.ID().String()
	case "map":
		d, err := client.NewDocFromMap(mapDoc(vals, r), e.defA)
		if err != nil {
			res.err = err.Error()
			return res
		}
		res.id = d.ID().String()
	case "gqlA", "gqlB":
		n := e.a
		if r.Kind == "gqlB" {
			n = e.b
		}
		txn, err := n.DB.NewTxn(n.Ctx, false)
		if err != nil {
			hx.Harnessf("NewTxn: %v", err)
		}
		defer txn.Discard(n.Ctx)
		q := fmt.Sprintf("mutation { create_Users(input: %s) { _docID } }", gqlInput(vals, r))
		out := hx.ExecOn(n.Ctx, txn, q)
		if !out.OK() {
			res.err = out.Err() + out.Panic
			return res
		}
		rows := out.Rows("create_Users")
		if len(rows) != 1 {
			res.err = fmt.Sprintf("create returned %d rows", len(rows))
			return res
		}
		res.id, _ = rows[0]["_docID"].(string)
		res.commits = commitsOf(n, txn, res.id)
	case "colB":
		n := e.b
		d, err := client.NewDocFromJSON([]byte(jsonDoc(vals, r)), e.defB)
		if err != nil {
			res.err = err.Error()
			return res
		}
		txn, err := n.DB.NewTxn(n.Ctx, false)
		if err != nil {
			hx.Harnessf("NewTxn: %v", err)
		}
		defer txn.Discard(n.Ctx)
		ctx := db.InitContext(n.Ctx, txn)
		if err := e.colB.Create(ctx, d); err != nil {
			res.err = err.Error()
			return res
		}
		out := hx.ExecOn(n.Ctx, txn, `query { Users { _docID } }`)
		if !out.OK() || len(out.Rows("Users")) != 1 {
			res.err = fmt.Sprintf("query after create: %s %d rows", out.Err()+out.Panic, len(out.Rows("Users")))
			return res
		}
		res.id, _ = out.Rows("Users")[0]["_docID"].(string)
		if res.id != d.ID().String() {
			res.err = fmt.Sprintf("stored _docID %s differs from Document.ID() %s", res.id, d.ID())
		}
		res.commits = commitsOf(n, txn, res.id)
	case "setB", "setGenB":
		n := e.b
		first, rest := r, r
		ord := r.order()
		k := r.Split
		if k > len(ord) {
			k = len(ord)
		}
		first.Order, rest.Order = ord[:k:k], ord[k:]
		d, err := client.NewDocFromJSON([]byte(jsonDocPart(vals, first)), e.defB)
		if err != nil {
			res.err = err.Error()
			return res
		}
		if err := d.SetWithJSON([]byte(jsonDocPart(vals, rest))); err != nil {
			res.err = "SetWithJSON: " + err.Error()
			return res
		}
		if r.Kind == "setGenB" {
			if err := d.GenerateAndSetDocID(); err != nil {
				res.err = "GenerateAndSetDocID: " + err.Error()
				return res
			}
		}
		txn, err := n.DB.NewTxn(n.Ctx, false)
		if err != nil {
			hx.Harnessf("NewTxn: %v", err)
		}
		defer txn.Discard(n.Ctx)
		ctx := db.InitContext(n.Ctx, txn)
		if err := e.colB.Create(ctx, d); err != nil {
			if r.Kind == "setB" && strings.Contains(err.Error(), "document verification failed") {
				res.refused = true
				return res
			}
			res.err = err.Error()
			return res
		}
		out := hx.ExecOn(n.Ctx, txn, `query { Users { _docID } }`)
		if !out.OK() || len(out.Rows("Users")) != 1 {
			res.err = fmt.Sprintf("query after create: %s %d rows", out.Err()+out.Panic, len(out.Rows("Users")))
			return res
		}
		res.id, _ = out.Rows("Users")[0]["_docID"].(string)
		res.commits = commitsOf(n, txn, res.id)
	default:
		hx.Harnessf("route kind %q", r.Kind)
	}
	return res
}

// jsonDocPart renders the fields listed in r.Order only (which may be a part of the fields).
func jsonDocPart(vals []V, r Route) string {
	var parts []string
	for _, i := range r.Order {
		v := vals[i]
		if v.Null && !r.explicit(i) {
			continue
		}
		parts = append(parts, fmt.Sprintf("%q:%s", docFields[i].Name, jsonText(docFields[i].Kind, v, r.FloatStyle)))
	}
	return "{" + strings.Join(parts, ",") + "}"
}

// ---------------------------------------------------------------------------
// Oracle
// ---------------------------------------------------------------------------

type docOutcome struct {
	setRefused   int // two-step (constructor + Set) documents refused by Create
	setStored    int // two-step documents stored (after GenerateAndSetDocID, or accepted directly)
	failures     []*hx.Failure
	routes       int
	gqlSkipped   bool
	nonNull      int
	nullSwapped  bool
	mutatedKind  string
	mutation     string
	emptyDoc     bool
	commitRoutes int
}

func runDoc(c DocCase) (out docOutcome) {
	c = c.fixed()
	e := getDocEnv()
	fail := func(f *hx.Failure) { out.failures = append(out.failures, f) }
	if e.rootsDisagree != "" {
		fail(hx.Failf("C13/doc/schema-ids-differ-between-nodes", "the same two type definitions (other order, two calls) got different ids: %s", e.rootsDisagree))
		return out
	}
	gqlOK := true
	for i, f := range docFields {
		if !c.Vals[i].Null {
			out.nonNull++
		}
		if !gqlExpressible(f.Kind, c.Vals[i]) {
			gqlOK = false
		}
	}
	out.emptyDoc = out.nonNull == 0
	out.gqlSkipped = !gqlOK

	var results []routeResult
	var used []Route
	var storing *Route
	for _, r := range c.Routes {
		if !gqlOK && strings.HasPrefix(r.Kind, "gql") {
			continue
		}
		if r.Kind != "json" && r.Kind != "map" {
			// A field written as null gets a (null) field commit, an omitted one gets none: the routes
			// whose genesis commits are compared write the same set of nulls (key order still differs).
			if storing == nil {
				rr := r
				storing = &rr
			} else {
				r.Explicit = storing.Explicit
			}
		}
		rr := runRoute(e, c.Vals, r)
		if rr.refused {
			out.setRefused++
			continue
		}
		if strings.HasPrefix(r.Kind, "set") {
			out.setStored++
		}
		results = append(results, rr)
		used = append(used, r)
	}
	out.routes = len(results)
	if len(results) == 0 {
		return out
	}
	// null written on one route and omitted on another
	for i := range docFields {
		if !c.Vals[i].Null {
			continue
		}
		w, o := false, false
		for _, r := range used {
			if r.explicit(i) {
				w = true
			} else {
				o = true
			}
		}
		if w && o {
			out.nullSwapped = true
		}
	}
	describe := func() string {
		var sb strings.Builder
		for i, r := range results {
			fmt.Fprintf(&sb, "  route %d %-5s id=%s err=%q\n", i, r.name, r.id, r.err)
		}
		fmt.Fprintf(&sb, "  json input of route 0: %s\n", jsonDoc(c.Vals, used[0]))
		return sb.String()
	}
	// D0: every route accepts the assignment (an input one route rejects and another accepts is reported, then classified)
	for _, r := range results {
		if r.err != "" {
			fail(hx.Failf("C13/doc/route-error/"+r.name, "route %s failed: %s\n%s", r.name, r.err, describe()))
			return out
		}
	}
	// D1: all ids equal
	base := results[0]
	for k, r := range results[1:] {
		if r.id != base.id {
			why := base.name + "-vs-" + r.name
			if r.name == base.name {
				// same constructor: key order or null-vs-omitted
				probe := used[k+1]
				probe.Explicit = used[0].Explicit
				p := runRoute(e, c.Vals, probe)
				if p.id == base.id {
					why = r.name + "/null-vs-omitted"
				} else {
					why = r.name + "/key-order"
				}
			}
			f := hx.Failf("C13/doc/docid-differs/"+why, "the same field values give different document ids:\n%s", describe())
			if bad := inexactFloatFields(c.Vals); len(bad) > 0 && jsonBased(r.name) != jsonBased(base.name) {
				// diagnoser: with the fields holding a misparsed float nulled, every route agrees
				clean := append([]V{}, c.Vals...)
				for i := range bad {
					clean[i] = V{Null: true}
				}
				agree := true
				var first string
				for k2, r2 := range used {
					rr := runRoute(e, clean, r2)
					if rr.err != "" || (k2 > 0 && rr.id != first) {
						agree = false
					}
					if k2 == 0 {
						first = rr.id
					}
				}
				if agree {
					f.Sig = sigFloatID
					f.Msg = "NewDocFromJSON parses a float text 1 ulp off (valyala/fastjson), so the JSON route stores another value and derives another id than the map/GraphQL routes. " + f.Msg
				}
			}
			fail(f)
			return out
		}
	}
	// D2: genesis commits (composite and per field, counters included) are the same blocks on every node and route
	var firstCommits *routeResult
	for i := range results {
		r := &results[i]
		if r.commits == "" {
			continue
		}
		out.commitRoutes++
		if strings.HasPrefix(r.commits, "error: ") {
			fail(hx.Failf("C13/doc/commits-query-error", "route %s: %s", r.name, r.commits))
			return out
		}
		if firstCommits == nil {
			firstCommits = r
			continue
		}
		if r.commits != firstCommits.commits {
			if f := diagnoseCommits(base.id, firstCommits, r, jsonDoc(c.Vals, used[0]), c.Vals); f != nil {
				fail(f)
				if !rec.IsKnown(f.Sig) {
					return out
				}
			}
		}
	}

	// D3: the id depends on every field value and on the schema root
	// (built through the map route: the values are handed over exactly, no text parser in between)
	plain := Route{Kind: "map"}
	exact := runRoute(e, c.Vals, plain)
	if exact.err != "" {
		fail(hx.Failf("C13/doc/route-error/map", "assignment rejected: %s\n input: %s", exact.err, jsonDoc(c.Vals, plain)))
		return out
	}
	mi := c.Mut % len(docFields)
	mvals := append([]V{}, c.Vals...)
	kind := docFields[mi].Kind
	var how string
	if c.Vals[mi].Null {
		mvals[mi] = c.Alt[mi]
		if mvals[mi].Null {
			mvals[mi] = zeroAlt(kind)
		}
		how = "null-to-value"
	} else {
		mvals[mi], how = mutate(kind, c.Vals[mi], c.MutHow)
	}
	out.mutatedKind, out.mutation = kind, how
	m := runRoute(e, mvals, plain)
	if m.err != "" {
		fail(hx.Failf("C13/doc/route-error/map-mutated", "mutated assignment rejected: %s\n input: %s", m.err, jsonDoc(mvals, plain)))
		return out
	}
	if m.id == exact.id {
		sig := fmt.Sprintf("C13/doc/docid-ignores-change/%s/%s", kindClass(kind), how)
		if _, nillable, isArr := elemKind(kind); isArr && nillable && len(mvals[mi].A) == len(c.Vals[mi].A) && !c.Vals[mi].Null {
			// diagnoser: an array with nillable elements changed without changing its length
			sig = sigNillableArr
		}
		fail(hx.Failf(sig,
			"two documents that differ in field %s (%s) have the same id %s:\n  %s\n  %s",
			docFields[mi].Name, how, base.id, jsonDoc(c.Vals, plain), jsonDoc(mvals, plain)))
		return out
	}
	js := jsonDoc(c.Vals, plain)
	for _, alt := range []struct {
		what string
		def  client.CollectionDefinition
	}{{"other-type-same-fields", e.defA2}, {"same-type-extra-field", e.defC}} {
		d, err := client.NewDocFromJSON([]byte(js), alt.def)
		if err != nil {
			fail(hx.Failf("C13/doc/route-error/json-other-root", "%s: %v\n input: %s", alt.what, err, js))
			return out
		}
		if d.ID().String() == base.id {
			fail(hx.Failf("C13/doc/docid-ignores-schema-root/"+alt.what, "document %s has id %s under schema root %s and under root %s", js, base.id, e.defA.Schema.Root, alt.def.Schema.Root))
			return out
		}
	}
	return out
}

// floatLabels classifies the float content of an assignment.
func floatLabels(c DocCase) []string {
	nz, intLit := false, false
	visit := func(kind string, v V) {
		if v.Null {
			return
		}
		if v.NZ {
			nz = true
		}
		if !strings.ContainsAny(floatText(v.fl(), 0), ".eE") {
			intLit = true
		}
	}
	for i, f := range docFields {
		if i >= len(c.Vals) {
			break
		}
		ek, _, isArr := elemKind(f.Kind)
		if ek != "f64" && ek != "f32" {
			if f.Kind == "json" && !c.Vals[i].Null && strings.Contains(c.Vals[i].S, "-0") {
				nz = true
			}
			continue
		}
		if isArr {
			for _, e := range c.Vals[i].A {
				visit(ek, e)
			}
		} else {
			visit(ek, c.Vals[i])
		}
	}
	var out []string
	if nz {
		out = append(out, "doc:negative-zero")
	}
	if intLit {
		out = append(out, "doc:float-written-as-integer-literal")
	}
	styles := map[int]bool{}
	for _, r := range c.Routes {
		styles[r.FloatStyle%3] = true
	}
	if len(styles) > 1 {
		out = append(out, "doc:float-text-differs-between-routes")
	}
	return out
}

// jsonBased: the route hands JSON text to NewDocFromJSON.
func jsonBased(route string) bool {
	return route == "json" || route == "colB" || route == "setB" || route == "setGenB"
}

func kindClass(kind string) string {
	ek, nillable, isArr := elemKind(kind)
	if !isArr {
		return kind
	}
	if nillable {
		return "array-of-nillable-" + ek
	}
	return "array-of-" + ek
}

type commitRow struct {
	Cid       string `json:"cid"`
	FieldName string `json:"fieldName"`
	Height    int    `json:"height"`
	Links     []struct {
		Cid  string `json:"cid"`
		Name string `json:"name"`
	} `json:"links"`
}

func parseCommits(s string) map[string]commitRow {
	m := map[string]commitRow{}
	for _, line := range strings.Split(s, "\n") {
		var r commitRow
		if json.Unmarshal([]byte(line), &r) == nil && r.Cid != "" {
			m[r.FieldName] = r
		}
	}
	return m
}

const sigHeadsPrefix = "C13/doc/genesis-cid-differs/field-commit-links-heads-of-other-fields"

// diagnoseCommits compares the genesis commits of two routes field by field. A difference is
// attributed to the known head-prefix defect only if the differing field commit carries links or a
// height above 1 although the document did not exist before (a genesis field commit has neither),
// and the composite differs only because of such a child.
func diagnoseCommits(id string, a, b *routeResult, input string, vals []V) *hx.Failure {
	inexact := map[string]bool{}
	if jsonBased(a.name) != jsonBased(b.name) {
		for i := range inexactFloatFields(vals) {
			inexact[docFields[i].Name] = true
		}
	}
	floatExplained := []string{}
	ma, mb := parseCommits(a.commits), parseCommits(b.commits)
	names := map[string]bool{}
	for k := range ma {
		names[k] = true
	}
	for k := range mb {
		names[k] = true
	}
	sorted := make([]string, 0, len(names))
	for k := range names {
		sorted = append(sorted, k)
	}
	sort.Strings(sorted)
	explained, unexplained := []string{}, []string{}
	for _, k := range sorted {
		if k == "_C" {
			continue
		}
		x, okx := ma[k]
		y, oky := mb[k]
		if okx && oky && x.Cid == y.Cid {
			continue
		}
		if okx && oky && (x.Height > 1 || y.Height > 1 || len(x.Links) > 0 || len(y.Links) > 0) {
			explained = append(explained, k)
		} else if okx && oky && inexact[k] {
			floatExplained = append(floatExplained, k)
		} else {
			unexplained = append(unexplained, k)
		}
	}
	detail := fmt.Sprintf("creating the same document (%s) produced different genesis commits on route %s and route %s:\n%s\n---\n%s\ninput: %s",
		id, a.name, b.name, a.commits, b.commits, input)
	if len(unexplained) > 0 {
		return hx.Failf("C13/doc/genesis-cid-differs/"+fieldClass(unexplained[0]), "field %v: %s", unexplained, detail)
	}
	if len(floatExplained) > 0 {
		return hx.Failf(sigFloatCommit, "the commit of field %v holds a float the JSON route parsed 1 ulp off: %s", floatExplained, detail)
	}
	if len(explained) > 0 {
		return hx.Failf(sigHeadsPrefix, "the genesis commit of field %v has height>1 / links to the commits of other fields, which ones depends on the run: %s", explained, detail)
	}
	if ma["_C"].Cid != mb["_C"].Cid {
		return hx.Failf("C13/doc/genesis-cid-differs/composite", "%s", detail)
	}
	return nil
}

func fieldClass(name string) string {
	for _, f := range docFields {
		if f.Name == name {
			if strings.Contains(f.GQL, "@crdt") {
				return "counter:" + name
			}
			return kindClass(f.Kind)
		}
	}
	return name
}
