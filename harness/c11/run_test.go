package c11

import (
	"bytes"
	"crypto/sha256"
	"encoding/json"
	"fmt"
	"math"
	"sort"
	"strconv"
	"strings"
	"sync"

	blocks "github.com/ipfs/go-block-format"
	"github.com/ipfs/go-cid"
	mh "github.com/multiformats/go-multihash"

	"github.com/sourcenetwork/defradb/client"
	"github.com/sourcenetwork/defradb/event"
	coreblock "github.com/sourcenetwork/defradb/internal/core/block"
	"github.com/sourcenetwork/defradb/internal/datastore"
	"github.com/sourcenetwork/defradb/internal/encryption"
	"github.com/sourcenetwork/defradb/verifharness/hx"
)

// Signatures of the two listed findings (see known_findings.d/C11.json) - produced only by
// the diagnoser explainsLateFirstWrite.
const (
	sigLateDoc   = "C11/plaintext-in-blockstore/field-first-written-after-create/doc-level"
	sigLateField = "C11/plaintext-in-blockstore/field-first-written-after-create/field-level-listed-field"
)

const (
	blocksPrefix = "/db/blocks/"
	encPrefix    = "/db/enc/"
	testKeyTail  = "examplekey1234567890examplekey12"
)

// roles of the three nodes
const (
	creator = 0
	holder  = 1 // receives every key the harness-KMS is willing to give
	keyless = 2 // the KMS answers with no items
)

// ---- harness KMS -----------------------------------------------------------------

// kms answers the enc-keys-request events of every node, as internal/kms does over the
// network: key blocks are taken from another node's /db/enc, stored in the requester's
// /db/enc and returned. Node 2 gets an empty answer; node 1 is refused the denied fields.
type kms struct {
	cl   *hx.Cluster
	mu   sync.Mutex
	docs map[string]DocSpec // by docID
	subs []event.Subscription
	wg   sync.WaitGroup
	errs []string
	// statistics
	requests [3]int
	granted  [3]int
	refused  int
}

func startKMS(cl *hx.Cluster) *kms {
	k := &kms{cl: cl, docs: map[string]DocSpec{}}
	for i, n := range cl.Nodes {
		sub, err := n.DB.Events().Subscribe(encryption.RequestKeysEventName)
		if err != nil {
			hx.Harnessf("subscribe to key requests: %v", err)
		}
		k.subs = append(k.subs, sub)
		k.wg.Add(1)
		go func(i int, sub event.Subscription) {
			defer k.wg.Done()
			for msg := range sub.Message() {
				ev, ok := msg.Data.(encryption.RequestKeysEvent)
				if !ok {
					continue
				}
				res := k.answer(i, ev)
				ev.Resp <- res
				close(ev.Resp)
			}
		}(i, sub)
	}
	return k
}

func (k *kms) stop() {
	for i, s := range k.subs {
		k.cl.Nodes[i].DB.Events().Unsubscribe(s)
	}
	k.wg.Wait()
}

func (k *kms) fail(format string, a ...any) {
	k.errs = append(k.errs, fmt.Sprintf(format, a...))
}

func (k *kms) answer(to int, ev encryption.RequestKeysEvent) encryption.Result {
	k.mu.Lock()
	defer k.mu.Unlock()
	k.requests[to]++
	if to == keyless {
		return encryption.Result{}
	}
	res := encryption.Result{}
	n := k.cl.Nodes[to]
	own := datastore.EncstoreFrom(n.DB.Rootstore())
	for _, link := range ev.Keys {
		var raw []byte
		for j, other := range k.cl.Nodes {
			if j == to || j == keyless {
				continue
			}
			b, err := datastore.EncstoreFrom(other.DB.Rootstore()).Get(n.Ctx, link.Cid)
			if err == nil {
				raw = b.RawData()
				break
			}
		}
		if raw == nil {
			k.fail("n%d asks for key block %s which no key-holding node has", to, link.Cid)
			continue
		}
		enc, err := coreblock.GetEncryptionBlockFromBytes(raw)
		if err != nil {
			k.fail("key block %s does not decode: %v", link.Cid, err)
			continue
		}
		if to == holder && enc.FieldName != nil {
			if d, ok := k.docs[string(enc.DocID)]; ok && contains(d.Deny, *enc.FieldName) {
				k.refused++
				continue
			}
		}
		nb, err := blocks.NewBlockWithCid(raw, link.Cid)
		if err != nil {
			k.fail("block: %v", err)
			continue
		}
		if err := own.Put(n.Ctx, nb); err != nil {
			k.fail("storing key block on n%d: %v", to, err)
			continue
		}
		k.granted[to]++
		res.Items = append(res.Items, encryption.Item{Link: link.Cid.Bytes(), Block: raw})
	}
	return res
}

// ---- model -----------------------------------------------------------------------

// secret is one written value that must stay confidential (or, as a control, must be visible).
type secret struct {
	doc    int
	field  string
	val    Val
	op     string // create | update
	writer int
	enc    bool
	found  bool // control needles: seen in the writer's block store
}

type docModel struct {
	// unsure: register fields whose current value the sequential model does not know: the key-less node
	// wrote them (a clear commit, concurrent in its field clock with the encrypted ones) and no key
	// holder has written them since. keylessWrote: fields the key-less node has a value of its own for.
	unsure       map[string]bool
	keylessWrote map[string]bool
	spec    DocSpec
	id      string
	vals    map[string]Val // registers: last written value (K=null for null)
	sumI    int64
	hasPN   bool
	deleted bool
}

type runner struct {
	c       Case
	cl      *hx.Cluster
	kms     *kms
	docs    []*docModel
	secrets []*secret
	stores  []*encFaultStore
	// keylessBlocks: block-store keys of the commits the key-less node wrote itself
	keylessBlocks map[string]bool
	// next[k] = index into cl.Msgs of the first message not yet delivered to node k
	next  [3]int
	stats runStats
	log   []string
}

type runStats struct {
	updatesOfEncrypted    int // update that wrote a non-null value to an encrypted field that had a field head
	lateFirstWrites       int // update that first wrote an encrypted-scope field omitted at creation
	nullThenSet           int // encrypted field created as null and set later
	counterUpdatesEnc     int
	holderWrites          int
	deletes               int
	deliveriesHolder      int
	deliveriesKeyless     int
	prodKeys              bool
	detKeys               bool
	controlsFound         int
	secretsSearched       int
	deniedFields          int
	skippedAfterDelete    int
	keylessWrites         int // the key-less node wrote a field-level encrypted field (clear commit)
	keylessWriteRefused   int
	holderWriteAboveClear int // a key holder wrote such a field after merging the clear commit
	keylessDocsInvisible  int
	keylessFieldsNull     int
	keyFaultSteps         int // writes attempted while the writer's key store was unavailable
	keyFaultFired         int // ... in which a key-store read actually failed / entries were gone
	keyFaultFailed        int // ... and the write reported an error (nothing stored, retried after restore)
	keyFaultSucceeded     int // ... and the write went through although a key-store read failed
	keyFaultSucceededGone int // ... and the write went through while the entries were gone (it may not have needed a key)
}

func (r *runner) logf(format string, a ...any) {
	r.log = append(r.log, fmt.Sprintf(format, a...))
}

func (r *runner) history() string {
	return "history:\n  " + strings.Join(r.log, "\n  ")
}

func (r *runner) failf(sig, format string, a ...any) *hx.Failure {
	return hx.Failf(sig, format+"\n%s", append(a, r.history())...)
}

// ---- raw store helpers --------------------------------------------------------------

func snapshot(n *hx.Node) []hx.FaultKV {
	kvs, err := hx.FaultSnapshotOf(n.DB.Rootstore(), nil)
	if err != nil {
		hx.Harnessf("rootstore scan: %v", err)
	}
	return kvs
}

func under(kv hx.FaultKV, prefix string) bool { return bytes.HasPrefix(kv.K, []byte(prefix)) }

type hit struct {
	key   string
	value []byte
	inKey bool
}

// search returns the pairs (restricted to prefix; "" = everything) that contain the needle.
func search(kvs []hx.FaultKV, prefix string, needle []byte, alsoKeys bool) []hit {
	var out []hit
	for _, kv := range kvs {
		if prefix != "" && !under(kv, prefix) {
			continue
		}
		if bytes.Contains(kv.V, needle) {
			out = append(out, hit{key: string(kv.K), value: kv.V})
		} else if alsoKeys && bytes.Contains(kv.K, needle) {
			out = append(out, hit{key: string(kv.K), value: kv.V, inKey: true})
		}
	}
	return out
}

// ---- run -----------------------------------------------------------------------------

func run(c Case) (*hx.Failure, runStats) {
	if len(c.Docs) == 0 {
		hx.Harnessf("case without documents")
	}
	r := &runner{c: c, keylessBlocks: map[string]bool{}}
	r.cl, r.stores = newFaultCluster(3, sdl(c.Branchable))
	defer r.cl.Close()
	r.kms = startKMS(r.cl)
	defer r.kms.stop()
	f := r.steps()
	if len(r.kms.errs) > 0 && f == nil {
		hx.Harnessf("harness KMS: %s", strings.Join(r.kms.errs, "; "))
	}
	r.stats.deniedFields = r.kms.refused
	return f, r.stats
}

func (r *runner) steps() *hx.Failure {
	for di := range r.c.Docs {
		if f := r.create(di); f != nil {
			return f
		}
	}
	for oi, op := range r.c.Ops {
		d := r.docs[op.Doc%len(r.docs)]
		var f *hx.Failure
		switch op.Kind {
		case "update":
			f = r.update(oi, op, d)
		case "delete":
			f = r.delete(oi, op, d)
		case "kwrite":
			f = r.keylessWrite(oi, op, d)
		case "deliver":
			to := op.Node
			if to != holder && to != keyless {
				to = holder
			}
			f = r.syncNode(to)
		default:
			hx.Harnessf("unknown op kind %q", op.Kind)
		}
		if f != nil {
			return f
		}
	}
	// quiescence: everything everywhere, then every node is judged
	for _, k := range []int{creator, holder, keyless} {
		if f := r.syncNode(k); f != nil {
			return f
		}
	}
	for _, k := range []int{creator, holder} {
		if f := r.checkShared(k, "final"); f != nil {
			return f
		}
		if f := r.readback(k, "final"); f != nil {
			return f
		}
	}
	return r.checkKeyless("final")
}

func (r *runner) collection(node int) client.Collection {
	n := r.cl.Nodes[node]
	col, err := n.DB.GetCollectionByName(n.Ctx, "Users")
	if err != nil {
		hx.Harnessf("collection: %v", err)
	}
	return col
}

func gqlInput(set []FieldVal) string {
	parts := []string{}
	for _, fv := range set {
		parts = append(parts, fv.F+": "+fv.V.gqlLiteral())
	}
	return "{" + strings.Join(parts, ", ") + "}"
}

func (r *runner) create(di int) *hx.Failure {
	spec := r.c.Docs[di]
	n := r.cl.Nodes[creator]
	d := &docModel{spec: spec, vals: map[string]Val{}, unsure: map[string]bool{}, keylessWrote: map[string]bool{}}
	encDoc := spec.Mode == "doc" || spec.Mode == "both"
	var encFields []string
	if spec.Mode == "fields" || spec.Mode == "both" {
		encFields = spec.EncFields
	}
	switch spec.Route {
	case "gql":
		args := "input: " + gqlInput(spec.Create)
		if encDoc {
			args += ", encrypt: true"
		}
		if len(encFields) > 0 {
			args += ", encryptFields: [" + strings.Join(encFields, ", ") + "]"
		}
		q := "mutation { create_Users(" + args + ") { _docID } }"
		res := n.Exec(q)
		if res.Panic != "" {
			return r.failf("C11/panic/create", "%s panicked: %s", q, res.Panic)
		}
		if !res.OK() {
			return r.failf("C11/write-error/create/"+spec.Mode, "%s failed: %s", q, res.Err())
		}
		rows := res.Rows("create_Users")
		if len(rows) != 1 {
			hx.Harnessf("create returned %d rows: %s", len(rows), q)
		}
		d.id, _ = rows[0]["_docID"].(string)
	default:
		col := r.collection(creator)
		m := map[string]any{}
		for _, fv := range spec.Create {
			m[fv.F] = fv.V.goValue()
		}
		doc, err := client.NewDocFromMap(m, col.Definition())
		if err != nil {
			hx.Harnessf("generator produced a document the input path rejects: %v: %v", m, err)
		}
		opts := []client.DocCreateOption{}
		if encDoc {
			opts = append(opts, client.CreateDocEncrypted(true))
		}
		if len(encFields) > 0 {
			opts = append(opts, client.CreateDocWithEncryptedFields(encFields))
		}
		if err := col.Create(n.Ctx, doc, opts...); err != nil {
			return r.failf("C11/write-error/create/"+spec.Mode, "create (%s, encryptFields=%v) failed: %v", spec.Mode, encFields, err)
		}
		d.id = doc.ID().String()
	}
	if d.id == "" {
		hx.Harnessf("no docID after create")
	}
	r.kms.mu.Lock()
	r.kms.docs[d.id] = spec
	r.kms.mu.Unlock()
	r.docs = append(r.docs, d)
	r.logf("n0 create d%d %s mode=%s encryptFields=%v route=%s fields=%s", di, d.id, spec.Mode, spec.EncFields, spec.Route, showSet(spec.Create))
	r.apply(di, d, spec.Create, "create", creator)
	return r.afterWrite(creator, "create")
}

func showSet(set []FieldVal) string {
	parts := []string{}
	for _, fv := range set {
		s := fv.V.K
		switch fv.V.K {
		case "str", "blob":
			s = fv.V.S
		case "int", "cint":
			s = strconv.FormatInt(fv.V.I, 10)
		case "flt", "cflt":
			s = fmt.Sprintf("%v(0x%016x)", math.Float64frombits(fv.V.U), fv.V.U)
		case "json", "arr":
			s = fv.V.K + fmt.Sprint(fv.V.L)
		}
		parts = append(parts, fv.F+"="+s)
	}
	return strings.Join(parts, " ")
}

// apply records the writes in the model.
func (r *runner) apply(di int, d *docModel, set []FieldVal, op string, writer int) {
	for _, fv := range set {
		enc := d.spec.encrypted(fv.F)
		if op == "update" && enc && d.unsure[fv.F] {
			r.stats.holderWriteAboveClear++
		}
		if op == "update" && enc {
			switch {
			case !d.spec.createdWith(fv.F):
				r.stats.lateFirstWrites++
			case fv.V.K != "null":
				if isCounter(fv.F) {
					r.stats.counterUpdatesEnc++
				}
				if prev, ok := d.vals[fv.F]; ok && prev.K == "null" {
					r.stats.nullThenSet++
				}
				r.stats.updatesOfEncrypted++
			}
		}
		switch fv.F {
		case "pn":
			d.sumI += fv.V.I
			d.hasPN = true
		default:
			d.vals[fv.F] = fv.V
			// the writer had merged everything (causal hand-over), so its write is above every head of
			// the field, the key-less node's included
			delete(d.unsure, fv.F)
		}
		if fv.V.K != "null" && len(fv.V.needles()) > 0 {
			r.secrets = append(r.secrets, &secret{doc: di, field: fv.F, val: fv.V, op: op, writer: writer, enc: enc})
		}
	}
}

// doUpdate issues the update; errText is the error the API reported ("" = success).
func (r *runner) doUpdate(w int, d *docModel, set []FieldVal, route string) (errText string, f *hx.Failure) {
	n := r.cl.Nodes[w]
	if route == "gql" {
		q := fmt.Sprintf(`mutation { update_Users(docID: %q, input: %s) { _docID } }`, d.id, gqlInput(set))
		res := n.Exec(q)
		if res.Panic != "" {
			return "", r.failf("C11/panic/update", "%s panicked: %s", q, res.Panic)
		}
		return res.Err(), nil
	}
	col := r.collection(w)
	id, err := client.NewDocIDFromString(d.id)
	if err != nil {
		hx.Harnessf("docID: %v", err)
	}
	doc, err := col.Get(n.Ctx, id, false)
	if err != nil {
		return "get: " + err.Error(), nil
	}
	for _, fv := range set {
		if err := doc.Set(fv.F, fv.V.goValue()); err != nil {
			hx.Harnessf("Document.Set(%s): %v", fv.F, err)
		}
	}
	if err := col.Update(n.Ctx, doc); err != nil {
		return err.Error(), nil
	}
	return "", nil
}

func (r *runner) doDelete(w int, d *docModel) (errText string, f *hx.Failure) {
	n := r.cl.Nodes[w]
	id, err := client.NewDocIDFromString(d.id)
	if err != nil {
		hx.Harnessf("docID: %v", err)
	}
	ok, err := r.collection(w).Delete(n.Ctx, id)
	if err != nil {
		return err.Error(), nil
	}
	if !ok {
		return "delete reported false", nil
	}
	return "", nil
}

// sharedAndLocal is what a failed write must leave untouched.
func sharedAndLocal(n *hx.Node) []hx.FaultKV {
	out := []hx.FaultKV{}
	for _, kv := range snapshot(n) {
		if under(kv, blocksPrefix) || under(kv, "/db/heads/") || under(kv, "/db/data/") {
			out = append(out, kv)
		}
	}
	return out
}

// write runs one update or delete. With op.KeyFault set it is the step "write while the key is
// unavailable": the writer's key store cannot be read (all reads / the n-th read fail) or has
// lost its entries while the write runs. Such a write may fail - then nothing is stored or
// announced, and the same write succeeds once the key is back - or succeed, and then every
// clause holds as for any other write: it must never fall back to clear text.
func (r *runner) write(w int, op Op, d *docModel, what string, do func() (string, *hx.Failure)) (done bool, f *hx.Failure) {
	n := r.cl.Nodes[w]
	sigErr := fmt.Sprintf("C11/write-error/%s/%s/n%d", what, d.spec.Mode, w)
	if op.KeyFault == "" {
		errText, f := do()
		if f != nil {
			return false, f
		}
		if errText != "" {
			return false, r.failf(sigErr, "%s of d%d on n%d failed: %s", what, op.Doc%len(r.docs), w, errText)
		}
		return true, nil
	}
	r.stats.keyFaultSteps++
	before := sharedAndLocal(n)
	fired := 0
	var restore func()
	switch op.KeyFault {
	case "gone":
		root := n.DB.Rootstore()
		kvs, err := hx.FaultSnapshotOf(root, []byte(encPrefix))
		if err != nil {
			hx.Harnessf("key store scan: %v", err)
		}
		for _, kv := range kvs {
			if err := root.Delete(n.Ctx, kv.K); err != nil {
				hx.Harnessf("key store delete: %v", err)
			}
		}
		fired = len(kvs)
		restore = func() {
			for _, kv := range kvs {
				if err := root.Set(n.Ctx, kv.K, kv.V); err != nil {
					hx.Harnessf("key store restore: %v", err)
				}
			}
		}
	case "read", "read-nth":
		nth := 0
		if op.KeyFault == "read-nth" {
			nth = op.Nth
			if nth < 1 {
				nth = 1
			}
		}
		r.stores[w].arm(nth)
		restore = func() { _, fired = r.stores[w].disarm() }
	default:
		hx.Harnessf("unknown key fault %q", op.KeyFault)
	}
	r.logf("   key store of n%d unavailable (%s %d)", w, op.KeyFault, op.Nth)
	errText, f := do()
	restore()
	if f != nil {
		return false, f
	}
	if fired > 0 {
		r.stats.keyFaultFired++
	}
	if errText == "" {
		// tolerated, or no key was needed (unencrypted field, nth beyond the reads): judged like any write
		r.logf("   write succeeded (key-store reads failed / entries removed: %d)", fired)
		if fired > 0 && op.KeyFault == "gone" {
			r.stats.keyFaultSucceededGone++
		} else if fired > 0 {
			r.stats.keyFaultSucceeded++
		}
		return true, nil
	}
	r.logf("   write failed: %s", errText)
	if fired == 0 {
		return false, r.failf(sigErr, "%s of d%d on n%d failed although no key-store read was made to fail: %s", what, op.Doc%len(r.docs), w, errText)
	}
	r.stats.keyFaultFailed++
	if msgs := r.cl.Collect(w); len(msgs) > 0 {
		return false, r.failf("C11/key-unavailable/failed-write-announced", "the %s on n%d reported %q, yet %d update notification(s) were handed to the network layer", what, w, errText, len(msgs))
	}
	if diff := hx.FaultDiffKV(before, sharedAndLocal(n), 8); diff != "" {
		return false, r.failf("C11/key-unavailable/failed-write-left-data", "the %s on n%d reported %q, yet the store changed:\n%s", what, w, errText, diff)
	}
	// the key is back: the same write goes through (and is judged like any other)
	errText, f = do()
	if f != nil {
		return false, f
	}
	if errText != "" {
		return false, r.failf(sigErr+"/after-key-restored", "%s of d%d on n%d still fails after the key store is readable again: %s", what, op.Doc%len(r.docs), w, errText)
	}
	return true, nil
}

func (r *runner) update(oi int, op Op, d *docModel) *hx.Failure {
	w := op.Node
	if w != creator && w != holder {
		w = creator
	}
	di := op.Doc % len(r.docs)
	if d.deleted {
		r.stats.skippedAfterDelete++
		return nil
	}
	// writers are handed the document in causal order: the model stays a plain sequence
	if f := r.syncNode(w); f != nil {
		return f
	}
	set := []FieldVal{}
	for _, fv := range op.Set {
		if w == holder && d.spec.denied(fv.F) {
			continue // node 1 has no key for this field: it cannot extend its history
		}
		set = append(set, fv)
	}
	if len(set) == 0 {
		return nil
	}
	r.logf("n%d update d%d route=%s %s", w, di, op.Route, showSet(set))
	done, f := r.write(w, op, d, "update", func() (string, *hx.Failure) { return r.doUpdate(w, d, set, op.Route) })
	if f != nil || !done {
		return f
	}
	if w == holder {
		r.stats.holderWrites++
	}
	r.apply(di, d, set, "update", w)
	return r.afterWrite(w, "update")
}

// keylessWrite: the node without keys writes a field that is encrypted field by field (it sees the
// document with that field null). Its commit is necessarily a clear one - it has no key - and is
// not a secret of anybody; what the property demands is that the key holders, once they have merged
// it, keep encrypting THEIR later writes of the field although one of its heads is now clear.
func (r *runner) keylessWrite(oi int, op Op, d *docModel) *hx.Failure {
	if d.deleted || d.spec.Mode != "fields" || len(op.Set) == 0 {
		return nil
	}
	fv := op.Set[0]
	if !d.spec.encrypted(fv.F) || isCounter(fv.F) || fv.V.K == "null" {
		return nil
	}
	if f := r.syncNode(keyless); f != nil {
		return f
	}
	before := map[string]bool{}
	for _, kv := range snapshot(r.cl.Nodes[keyless]) {
		if under(kv, blocksPrefix) {
			before[string(kv.K)] = true
		}
	}
	defer func() {
		for _, kv := range snapshot(r.cl.Nodes[keyless]) {
			if under(kv, blocksPrefix) && !before[string(kv.K)] {
				r.keylessBlocks[string(kv.K)] = true
			}
		}
	}()
	di := op.Doc % len(r.docs)
	r.logf("n%d (key-less) update d%d %s", keyless, di, showSet([]FieldVal{fv}))
	errText, f := r.doUpdate(keyless, d, []FieldVal{fv}, op.Route)
	if f != nil {
		return f
	}
	if errText != "" {
		// a key-less node may be refused; then nothing may have been announced
		if msgs := r.cl.Collect(keyless); len(msgs) > 0 {
			return r.failf("C11/keyless-write/error-but-event", "update of d%d.%s on the key-less node failed (%s) but announced %d commits", di, fv.F, errText, len(msgs))
		}
		r.stats.keylessWriteRefused++
		return nil
	}
	if msgs := r.cl.Collect(keyless); len(msgs) == 0 {
		hx.Harnessf("update on the key-less node produced no update notification")
	}
	r.stats.keylessWrites++
	d.unsure[fv.F] = true
	d.keylessWrote[fv.F] = true
	return r.checkKeyless("after its own write")
}

func (r *runner) delete(oi int, op Op, d *docModel) *hx.Failure {
	w := op.Node
	if w != creator && w != holder {
		w = creator
	}
	if d.deleted {
		r.stats.skippedAfterDelete++
		return nil
	}
	if f := r.syncNode(w); f != nil {
		return f
	}
	r.logf("n%d delete d%d", w, op.Doc%len(r.docs))
	done, f := r.write(w, op, d, "delete", func() (string, *hx.Failure) { return r.doDelete(w, d) })
	if f != nil || !done {
		return f
	}
	d.deleted = true
	r.stats.deletes++
	return r.afterWrite(w, "delete")
}

// afterWrite judges what the write made available to peers.
func (r *runner) afterWrite(w int, op string) *hx.Failure {
	msgs := r.cl.Collect(w)
	if len(msgs) == 0 {
		hx.Harnessf("%s on n%d produced no update notification", op, w)
	}
	if f := r.checkEvents(w, msgs); f != nil {
		return f
	}
	if f := r.checkShared(w, op); f != nil {
		return f
	}
	return r.readback(w, "after "+op)
}

// syncNode delivers every notification node k has not seen, in production order.
func (r *runner) syncNode(k int) *hx.Failure {
	delivered := 0
	for ; r.next[k] < len(r.cl.Msgs); r.next[k]++ {
		m := r.cl.Msgs[r.next[k]]
		if m.From == k {
			continue
		}
		err := r.cl.Deliver(m, k)
		delivered++
		what := "doc " + m.DocID
		if m.DocID == "" {
			what = "collection-level commit"
		}
		r.logf("deliver %s (%s, from n%d) to n%d: %v", short(m.Cid), what, m.From, k, err)
		if err != nil {
			role := map[int]string{creator: "creator", holder: "key-holder", keyless: "key-less"}[k]
			return r.failf("C11/merge-error/"+role, "merge of %s on n%d (%s) failed: %v", short(m.Cid), k, role, err)
		}
	}
	if delivered == 0 {
		return nil
	}
	// merges publish nothing the network layer forwards; keep the tap empty
	if extra := r.cl.Collect(k); len(extra) > 0 {
		hx.Harnessf("merge on n%d produced %d update notifications", k, len(extra))
	}
	switch k {
	case holder:
		r.stats.deliveriesHolder++
		if f := r.checkShared(k, "merge"); f != nil {
			return f
		}
		return r.readback(k, "after merge")
	case keyless:
		r.stats.deliveriesKeyless++
		return r.checkKeyless("after merge")
	default:
		if f := r.checkShared(k, "merge"); f != nil {
			return f
		}
		return r.readback(k, "after merge")
	}
}

func short(c string) string {
	if len(c) > 10 {
		return "…" + c[len(c)-8:]
	}
	return c
}

// checkEvents: what is handed to the network layer is exactly the stored (encrypted) block,
// and holds no secret.
func (r *runner) checkEvents(w int, msgs []hx.Msg) *hx.Failure {
	bs := datastore.BlockstoreFrom(r.cl.Nodes[w].DB.Rootstore())
	for _, m := range msgs {
		for _, s := range r.secrets {
			if !s.enc {
				continue
			}
			for _, nd := range s.val.needles() {
				if bytes.Contains(m.Block, nd) {
					return r.failf("C11/plaintext-in-update-event/"+s.op, "the update notification %s of n%d carries the plaintext of encrypted field %s of d%d", short(m.Cid), w, s.field, s.doc)
				}
			}
		}
		c := m.CID()
		dm, err := mh.Decode(c.Hash())
		sum := sha256.Sum256(m.Block)
		if err != nil || dm.Code != mh.SHA2_256 || !bytes.Equal(dm.Digest, sum[:]) {
			return r.failf("C11/update-event-block-is-not-the-announced-block", "n%d announced %s but the block bytes handed to the network layer do not hash to it (a block other than the stored one leaves the node)", w, m.Cid)
		}
		stored, err := bs.Get(r.cl.Nodes[w].Ctx, c)
		if err != nil {
			return r.failf("C11/update-event-block-not-stored", "n%d announced %s which is not in its block store: %v", w, m.Cid, err)
		}
		if !bytes.Equal(stored.RawData(), m.Block) {
			return r.failf("C11/update-event-block-is-not-the-announced-block", "n%d announced %s with bytes that differ from the stored block", w, m.Cid)
		}
		// an encrypted document's commit must say so: the link to the key block is what makes
		// a receiver without the key skip it
		if m.DocID != "" {
			blk, err := coreblock.GetFromBytes(m.Block)
			if err != nil {
				return r.failf("C11/update-event-undecodable", "block of %s does not decode: %v", m.Cid, err)
			}
			for _, d := range r.docs {
				if d.id == m.DocID && (d.spec.Mode == "doc" || d.spec.Mode == "both") && blk.Encryption == nil {
					return r.failf("C11/encrypted-document-commit-without-key-link", "document-level encrypted %s: the commit %s announced by n%d carries no link to a key block", d.id, short(m.Cid), w)
				}
			}
		}
	}
	return nil
}

// encKeys decodes the key blocks under /db/enc.
type keyBlock struct {
	cid cid.Cid
	raw []byte
	enc *coreblock.Encryption
	det bool // deterministic key of test binaries: derived from field name and docID
}

func keyBlocks(n *hx.Node, kvs []hx.FaultKV) []keyBlock {
	es := datastore.EncstoreFrom(n.DB.Rootstore())
	ch, err := es.AllKeysChan(n.Ctx)
	if err != nil {
		hx.Harnessf("encstore keys: %v", err)
	}
	var out []keyBlock
	for c := range ch {
		b, err := es.Get(n.Ctx, c)
		if err != nil {
			hx.Harnessf("encstore get: %v", err)
		}
		enc, err := coreblock.GetEncryptionBlockFromBytes(b.RawData())
		if err != nil {
			hx.Harnessf("key block %s does not decode: %v", c, err)
		}
		fn := ""
		if enc.FieldName != nil {
			fn = *enc.FieldName
		}
		det := bytes.Equal(enc.Key, []byte(fn + string(enc.DocID) + testKeyTail)[:32])
		out = append(out, keyBlock{cid: c, raw: b.RawData(), enc: enc, det: det})
	}
	sort.Slice(out, func(i, j int) bool { return out[i].cid.String() < out[j].cid.String() })
	return out
}

// checkShared judges the peer-visible part of node k (creator or key-holder): /db/blocks.
func (r *runner) checkShared(k int, when string) *hx.Failure {
	n := r.cl.Nodes[k]
	kvs := snapshot(n)
	// 1. secrets
	for _, s := range r.secrets {
		anyHit := false
		for _, nd := range s.val.needles() {
			hits := search(kvs, blocksPrefix, nd, false)
			if s.enc {
				r.stats.secretsSearched++
				if len(hits) > 0 {
					return r.leak(k, s, hits[0], when)
				}
				continue
			}
			anyHit = anyHit || len(hits) > 0
		}
		if s.enc {
			continue
		}
		// control: the search does find what is not encrypted (for kinds with several candidate
		// encodings - blob, JSON leaves, array elements - one pattern found is enough)
		if anyHit {
			if !s.found {
				s.found = true
				r.stats.controlsFound++
			}
		} else if k == s.writer {
			hx.Harnessf("control failed: the value written to the unencrypted field %s of d%d (%s) is not found under /db/blocks of its writer n%d - the byte search would prove nothing\n%s", s.field, s.doc, showSet([]FieldVal{{F: s.field, V: s.val}}), k, r.history())
		}
	}
	// 1b. structure: every commit of an encrypted field links to its key block - the link is what
	// tells a receiver that the delta is ciphertext (and what a value too short to be searched
	// for, or a null, cannot hide behind)
	for _, kv := range kvs {
		if !under(kv, blocksPrefix) {
			continue
		}
		blk, err := coreblock.GetFromBytes(kv.V)
		if err != nil || blk.Delta.IsComposite() || blk.Delta.IsCollection() {
			continue
		}
		for di, d := range r.docs {
			field := blk.Delta.GetFieldName()
			if d.id != string(blk.Delta.GetDocID()) || !d.spec.encrypted(field) || blk.Encryption != nil {
				continue
			}
			if r.keylessBlocks[string(kv.K)] {
				continue // written by the node that has no key: necessarily clear, nobody's secret
			}
			desc := fmt.Sprintf("n%d (%s): the commit %q of encrypted field %s of d%d (mode %s, height %d) carries no link to a key block: its delta is stored and served in clear",
				k, when, kv.K, field, di, d.spec.Mode, blk.Delta.GetPriority())
			if sig := r.explainsLateFirstWrite(&secret{doc: di, field: field, op: "update"}, blk); sig != "" {
				return r.failf(sig, "%s", desc)
			}
			return r.failf("C11/encrypted-field-commit-without-key-link/"+scope(d.spec, field), "%s", desc)
		}
	}
	// 2. key material stays under /db/enc
	bs := datastore.BlockstoreFrom(n.DB.Rootstore())
	for _, kb := range keyBlocks(n, kvs) {
		if kb.det {
			r.stats.detKeys = true
		} else {
			r.stats.prodKeys = true
		}
		if len(kb.enc.Key) != 32 {
			return r.failf("C11/key-block-without-key", "n%d: key block %s holds a %d-byte key", k, kb.cid, len(kb.enc.Key))
		}
		if has, _ := bs.Has(n.Ctx, kb.cid); has {
			return r.failf("C11/key-block-in-blockstore", "n%d (%s): the key block %s is also filed under /db/blocks, the store served to peers", k, when, kb.cid)
		}
		for _, kv := range kvs {
			if under(kv, encPrefix) {
				continue
			}
			if bytes.Contains(kv.V, kb.raw) {
				return r.failf("C11/key-block-outside-encstore", "n%d (%s): the encoded key block %s occurs in the value of %q", k, when, kb.cid, kv.K)
			}
			// the deterministic key of test binaries is a prefix of fieldName+docID, which is public
			if !kb.det && bytes.Contains(kv.V, kb.enc.Key) {
				return r.failf("C11/key-bytes-outside-encstore", "n%d (%s): the 32 key bytes of %s occur in the value of %q", k, when, kb.cid, kv.K)
			}
		}
		for _, m := range r.cl.Msgs {
			if bytes.Contains(m.Block, kb.raw) || !kb.det && bytes.Contains(m.Block, kb.enc.Key) {
				return r.failf("C11/key-in-update-event", "key material of %s occurs in the update notification %s", kb.cid, short(m.Cid))
			}
		}
	}
	return nil
}

// leak diagnoses a secret found in the block store.
func (r *runner) leak(k int, s *secret, h hit, when string) *hx.Failure {
	d := r.docs[s.doc]
	desc := fmt.Sprintf("n%d (%s): the value written by the %s to encrypted field %s of d%d (%s, mode %s) occurs in clear in the block stored under %q",
		k, when, s.op, s.field, s.doc, showSet([]FieldVal{{F: s.field, V: s.val}}), d.spec.Mode, h.key)
	blk, err := coreblock.GetFromBytes(h.value)
	if err == nil {
		desc += fmt.Sprintf(" [block of field %q, height %d, key link %v]", blk.Delta.GetFieldName(), blk.Delta.GetPriority(), blk.Encryption != nil)
	}
	if sig := r.explainsLateFirstWrite(s, blk); sig != "" {
		return r.failf(sig, "%s", desc)
	}
	return r.failf(fmt.Sprintf("C11/plaintext-in-blockstore/%s/%s", s.op, scope(d.spec, s.field)), "%s", desc)
}

func scope(spec DocSpec, field string) string {
	switch spec.Mode {
	case "doc":
		return "doc-level"
	case "both":
		if contains(spec.EncFields, field) {
			return "doc-and-field-level"
		}
		return "doc-level"
	case "fields":
		return "field-level"
	}
	return "unencrypted"
}

// explainsLateFirstWrite is the diagnoser of the listed findings: the clear block is a commit
// of exactly the secret's field, it carries no key link, and the field had no commit in the
// creating write of the encrypted document (so there was no field head to inherit a key from).
// Anything else is not explained.
func (r *runner) explainsLateFirstWrite(s *secret, blk *coreblock.Block) string {
	d := r.docs[s.doc]
	if blk == nil || s.op != "update" || blk.Encryption != nil {
		return ""
	}
	if blk.Delta.IsComposite() || blk.Delta.IsCollection() || blk.Delta.GetFieldName() != s.field || string(blk.Delta.GetDocID()) != d.id {
		return ""
	}
	if d.spec.createdWith(s.field) {
		return ""
	}
	switch d.spec.Mode {
	case "doc", "both":
		return sigLateDoc
	case "fields":
		if contains(d.spec.EncFields, s.field) {
			return sigLateField
		}
	}
	return ""
}

// ---- reads ----------------------------------------------------------------------------

const readQuery = `query { Users(showDeleted: true) { _docID _deleted s tag i f bl j a pn } }`

func (r *runner) rows(k int) (map[string]map[string]any, *hx.Failure) {
	res := r.cl.Nodes[k].Exec(readQuery)
	if res.Panic != "" {
		return nil, r.failf("C11/panic/read", "query panicked on n%d: %s", k, res.Panic)
	}
	if !res.OK() {
		return nil, r.failf("C11/read-error", "query failed on n%d: %s", k, res.Err())
	}
	out := map[string]map[string]any{}
	for _, row := range res.Rows("Users") {
		id, _ := row["_docID"].(string)
		out[id] = row
	}
	return out, nil
}

func sameValue(field string, want Val, got any) bool {
	switch want.K {
	case "null":
		return got == nil
	case "str", "blob":
		s, ok := got.(string)
		return ok && (s == want.S || want.K == "blob" && strings.EqualFold(s, want.S))
	case "int", "cint":
		nn, ok := got.(json.Number)
		return ok && nn.String() == strconv.FormatInt(want.I, 10)
	case "flt", "cflt":
		nn, ok := got.(json.Number)
		if !ok {
			return false
		}
		x, err := strconv.ParseFloat(nn.String(), 64)
		return err == nil && x == math.Float64frombits(want.U)
	case "json":
		return hx.Canon(got) == hx.Canon(hx.Normalize(want.goValue()))
	case "arr":
		return hx.Canon(got) == hx.Canon(hx.Normalize(want.goValue()))
	}
	return false
}

// readback: the creator and the key-holding node return exactly what was written. Both are
// fully synchronised whenever this is called (writers are handed the history in order).
func (r *runner) readback(k int, when string) *hx.Failure {
	rows, f := r.rows(k)
	if f != nil {
		return f
	}
	role := "creator"
	if k == holder {
		role = "key-holder"
	}
	for di, d := range r.docs {
		row, ok := rows[d.id]
		if !ok {
			return r.failf("C11/readback/"+role+"/document-missing", "n%d (%s) does not return d%d %s (mode %s) although it holds the keys", k, when, di, d.id, d.spec.Mode)
		}
		if del, _ := row["_deleted"].(bool); del != d.deleted {
			return r.failf("C11/readback/"+role+"/deleted-flag", "n%d (%s): d%d _deleted=%v, model says %v", k, when, di, row["_deleted"], d.deleted)
		}
		for _, f := range allFields {
			if d.unsure[f] {
				continue
			}
			denied := k == holder && d.spec.denied(f)
			if denied && d.keylessWrote[f] {
				// without the key node 1 keeps reading the clear value the key-less node wrote
				continue
			}
			var want Val
			switch {
			case denied:
				want = Val{K: "null"}
			case f == "pn":
				want = Val{K: "null"}
				if d.hasPN {
					want = Val{K: "cint", I: d.sumI}
				}
			default:
				v, ok := d.vals[f]
				if !ok {
					v = Val{K: "null"}
				}
				want = v
			}
			if !sameValue(f, want, row[f]) {
				kind := "plain-field"
				if d.spec.encrypted(f) {
					kind = "encrypted-field"
				}
				if denied {
					kind = "field-without-key"
				}
				return r.failf("C11/readback/"+role+"/"+kind, "n%d (%s): d%d.%s reads %s, written was %s (mode %s)", k, when, di, f, hx.Canon(row[f]), showSet([]FieldVal{{F: f, V: want}}), d.spec.Mode)
			}
		}
	}
	return nil
}

// checkKeyless: the node that was given no key stores nothing of the secrets anywhere, holds
// no key material, and returns neither the encrypted documents nor encrypted field values.
func (r *runner) checkKeyless(when string) *hx.Failure {
	n := r.cl.Nodes[keyless]
	kvs := snapshot(n)
	for _, s := range r.secrets {
		if !s.enc {
			continue
		}
		for _, nd := range s.val.needles() {
			r.stats.secretsSearched++
			if hits := search(kvs, "", nd, true); len(hits) > 0 {
				h := hits[0]
				if strings.HasPrefix(h.key, blocksPrefix) {
					// the same leak as on the sender, seen from the receiving side
					return r.leak(keyless, s, h, when)
				}
				return r.failf("C11/keyless-node-stores-plaintext", "n2 (%s) has no key, yet the value of encrypted field %s of d%d occurs under %q (in key: %v)", when, s.field, s.doc, h.key, h.inKey)
			}
		}
	}
	for _, kv := range kvs {
		if under(kv, encPrefix) {
			return r.failf("C11/keyless-node-holds-key-block", "n2 (%s) was given no key but has %q", when, kv.K)
		}
	}
	// key material of the others
	for _, k := range []int{creator, holder} {
		for _, kb := range keyBlocks(r.cl.Nodes[k], nil) {
			for _, kv := range kvs {
				if bytes.Contains(kv.V, kb.raw) || !kb.det && bytes.Contains(kv.V, kb.enc.Key) {
					return r.failf("C11/key-material-on-keyless-node", "n2 (%s): key material of %s occurs under %q", when, kb.cid, kv.K)
				}
			}
		}
	}
	if r.next[keyless] == 0 {
		return nil
	}
	rows, f := r.rows(keyless)
	if f != nil {
		return f
	}
	for di, d := range r.docs {
		row, ok := rows[d.id]
		switch d.spec.Mode {
		case "doc", "both":
			if ok {
				return r.failf("C11/keyless-node-returns-encrypted-document", "n2 (%s) returns the document-level encrypted d%d: %s", when, di, hx.Canon(row))
			}
			r.stats.keylessDocsInvisible++
		case "fields":
			if !ok {
				continue
			}
			for _, f := range d.spec.EncFields {
				if d.keylessWrote[f] {
					continue // its own value
				}
				if row[f] != nil {
					return r.failf("C11/keyless-node-returns-encrypted-field", "n2 (%s) returns d%d.%s = %s", when, di, f, hx.Canon(row[f]))
				}
				r.stats.keylessFieldsNull++
			}
		}
	}
	return nil
}
