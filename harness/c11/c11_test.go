package c11

import (
	"encoding/json"
	"fmt"
	"os"
	"strconv"
	"strings"
	"syscall"
	"testing"

	"pgregory.net/rapid"

	"github.com/sourcenetwork/defradb/verifharness/hx"
)

// DefraDB switches to a deterministic encryption key (a prefix of fieldName+docID) and a
// constant AES-GCM nonce when os.Args[0] ends in ".test" (internal/encryption/encryptor.go,
// crypto/nonce.go: package init). To exercise the production key and nonce generation - and
// to make "key bytes occur only under /db/enc" a meaningful search - the test binary
// replaces itself with the same executable under an argv[0] that does not end in ".test".
// One shard in four (and VERIF_C11_DETERMINISTIC=1) keeps the deterministic mode, which is
// the one the repository's own tests run in.
func reexecWithProductionKeys() {
	if !strings.HasSuffix(os.Args[0], ".test") || os.Getenv("VERIF_C11_REEXEC") != "" || os.Getenv("VERIF_C11_DETERMINISTIC") != "" {
		return
	}
	if s, err := strconv.Atoi(os.Getenv("VERIF_SHARD")); err == nil && s%4 == 3 {
		return
	}
	exe, err := os.Executable()
	if err != nil {
		return
	}
	argv := append([]string{strings.TrimSuffix(os.Args[0], ".test") + ".prodkeys"}, os.Args[1:]...)
	env := append(os.Environ(), "VERIF_C11_REEXEC=1")
	// on success this does not return; on failure the run continues with deterministic keys
	_ = syscall.Exec(exe, argv, env)
}

func TestMain(m *testing.M) {
	reexecWithProductionKeys()
	hx.Main(m)
}

var rec = hx.NewRecorder("C11",
	"1-2 documents created on node 0 with encrypt:true, an encryptFields subset, both, or none (control), through the collection API or GraphQL; "+
		"every written value is a unique needle (12 mixed characters / 12 blob bytes / 62-bit ints / random float64 bit patterns / JSON leaves / array elements / 56-bit counter increments); "+
		"fields are omitted or null at creation and first set later; 1-12 steps of updates (1-3 fields, by the creator or by the key-holding node 1 after a causal hand-over), deletes, either of them also while the writer's key store is unavailable (every read / the n-th read under /db/enc fails, or its entries are gone; the write must fail leaving nothing, or succeed encrypted), deliveries to the key-holding node 1 and the key-less node 2; "+
		"the harness answers every enc-keys-request (all keys / all but denied field keys / none); finally everything is delivered everywhere. "+
		"non-trivial = an update wrote a value to an encrypted field after creation, or first set a field after creation in an encrypted document; distinct = distinct case",
	"only /db/blocks and event.Update.Block are shared with peers; plaintext under /db/data of a key-holding node is expected",
	"needles are at least 7 random bytes, an accidental occurrence in ciphertext, cids or signatures is below 2^-40 per case; 32-bit integers of the GraphQL route are not searched for",
	"writers are handed the full history before they write, so the expected document is the plain sequence of writes",
	"test binaries use a deterministic key derived from the public docID; three shards in four re-execute themselves under another argv[0] to get production keys and nonces, and only there are raw key bytes searched for",
	"an encryptFields entry for a field that is absent from the input is treated as a request to encrypt that field when it is written later")

func labels(c Case, st runStats) []string {
	l := []string{}
	modes := map[string]bool{}
	for _, d := range c.Docs {
		modes[d.Mode] = true
		l = append(l, "route-create:"+d.Route)
		if len(d.Deny) > 0 {
			l = append(l, "holder-denied-some-field-keys")
		}
		for _, fv := range d.Create {
			if fv.V.K == "null" && d.encrypted(fv.F) {
				l = append(l, "encrypted-field-null-at-create")
				break
			}
		}
	}
	for m := range modes {
		l = append(l, "mode:"+m)
	}
	if c.Branchable {
		l = append(l, "branchable")
	}
	if c.AvoidLate {
		l = append(l, "switch:late-first-write-avoided")
	}
	flag := func(b bool, s string) {
		if b {
			l = append(l, s)
		}
	}
	flag(st.updatesOfEncrypted > 0, "update-of-encrypted-field")
	flag(st.updatesOfEncrypted > 2, "update-of-encrypted-field>=3")
	flag(st.lateFirstWrites > 0, "field-first-written-after-create-in-encrypted-scope")
	flag(st.nullThenSet > 0, "encrypted-field-null-then-set")
	flag(st.counterUpdatesEnc > 0, "encrypted-counter-incremented")
	flag(st.holderWrites > 0, "key-holder-wrote")
	flag(st.deletes > 0, "delete")
	flag(st.deliveriesHolder > 1, "key-holder-merged-more-than-once")
	flag(st.deliveriesKeyless > 1, "key-less-merged-more-than-once")
	flag(st.deniedFields > 0, "kms-refused-a-field-key")
	flag(st.prodKeys, "keys:production")
	flag(st.detKeys, "keys:deterministic")
	flag(st.keylessWrites > 0, "key-less-node-wrote-field-level-encrypted-field(clear-commit)")
	flag(st.keylessWriteRefused > 0, "key-less-write-refused")
	flag(st.holderWriteAboveClear > 0, "key-holder-wrote-encrypted-field-above-a-clear-head")
	flag(st.keylessDocsInvisible > 0, "key-less:encrypted-doc-invisible")
	flag(st.keylessFieldsNull > 0, "key-less:encrypted-field-null")
	flag(st.controlsFound > 0, "control-needles-found")
	flag(st.keyFaultSteps > 0, "key-unavailable:write-attempted")
	flag(st.keyFaultFired > 0, "key-unavailable:key-read-failed-or-key-gone")
	flag(st.keyFaultFailed > 0, "key-unavailable:write-refused-nothing-stored-then-retried")
	flag(st.keyFaultSucceeded > 0, "key-unavailable:write-succeeded-despite-failed-key-read")
	flag(st.keyFaultSucceededGone > 0, "key-unavailable:write-succeeded-while-key-entries-gone")
	seen := map[string]bool{}
	for _, op := range c.Ops {
		if k := "key-fault:" + op.KeyFault + ":" + op.Kind; op.KeyFault != "" && !seen[k] {
			seen[k] = true
			l = append(l, k)
		}
	}
	for _, op := range c.Ops {
		if op.Kind == "update" && op.Route == "gql" {
			l = append(l, "route-update:gql")
			break
		}
	}
	return l
}

func TestC11(t *testing.T) {
	n := 0
	rapid.Check(t, func(t *rapid.T) {
		n++
		// search past the listed findings: every other case avoids their trigger by construction
		avoid := rapid.Bool().Draw(t, "avoid-known")
		c := drawCase(t, avoid && rec.IsKnown(sigLateDoc), avoid && rec.IsKnown(sigLateField))
		var st runStats
		f := hx.Guard("C11", func() *hx.Failure {
			var f *hx.Failure
			f, st = run(c)
			return f
		})
		nontrivial := st.updatesOfEncrypted > 0 || st.lateFirstWrites > 0
		rec.Eval(c, nontrivial, labels(c, st)...)
		rec.Check(t, c, f)
	})
}

func runRaw(raw []byte) *hx.Failure {
	var c Case
	if err := json.Unmarshal(raw, &c); err != nil {
		return hx.Failf("C11/bad-replay", "cannot decode case: %v", err)
	}
	return hx.Guard("C11", func() *hx.Failure {
		f, _ := run(c)
		return f
	})
}

func TestReplay(t *testing.T) {
	raw := hx.ReplayCase(t)
	rec.SetReplaying()
	var c Case
	if err := json.Unmarshal(raw, &c); err != nil {
		t.Fatalf("replay file: %v", err)
	}
	f := runRaw(raw)
	if f != nil {
		fmt.Println(f.Error())
	}
	rec.Eval(c, true)
	rec.Check(t, c, f)
}

func TestRegress(t *testing.T) {
	hx.Regress(t, "testdata/regress", runRaw, rec)
}
