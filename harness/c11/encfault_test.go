package c11

import (
	"bytes"
	"context"
	"errors"
	"sync"

	"github.com/sourcenetwork/corekv"

	"github.com/sourcenetwork/defradb/verifharness/hx"
)

// errKeyStoreRead is what an injected key-store read failure returns.
var errKeyStoreRead = errors.New("verif: injected failure reading the key store")

// encFaultStore is the root store of every node of this check: a Badger in-memory store
// (wrapped in the shared hx.FaultStore, which stays transparent) whose reads under /db/enc can
// be made to fail - all of them, or only the n-th of a window - while one write runs. This
// is the namespace-selective fault the shared fault store does not offer (it fails the k-th
// operation whatever its key).
type encFaultStore struct {
	corekv.TxnStore
	mu     sync.Mutex
	on     bool
	nth    int // 0 = every read fails; n = only the n-th read of the window
	seen   int
	failed int
}

func newEncFaultStore() *encFaultStore {
	fs, err := hx.NewFaultMemStore()
	if err != nil {
		hx.Harnessf("cannot open badger in-memory: %v", err)
	}
	return &encFaultStore{TxnStore: fs}
}

// arm starts a window in which reads of the key store fail.
func (s *encFaultStore) arm(nth int) {
	s.mu.Lock()
	defer s.mu.Unlock()
	s.on, s.nth, s.seen, s.failed = true, nth, 0, 0
}

// disarm ends the window; it returns the number of key-store reads seen and failed.
func (s *encFaultStore) disarm() (seen, failed int) {
	s.mu.Lock()
	defer s.mu.Unlock()
	s.on = false
	return s.seen, s.failed
}

func (s *encFaultStore) fails(key []byte) bool {
	if !bytes.HasPrefix(key, []byte(encPrefix)) && !bytes.Equal(key, []byte(encPrefix[:len(encPrefix)-1])) {
		return false
	}
	s.mu.Lock()
	defer s.mu.Unlock()
	if !s.on {
		return false
	}
	s.seen++
	if s.nth == 0 || s.seen == s.nth {
		s.failed++
		return true
	}
	return false
}

func (s *encFaultStore) Get(ctx context.Context, key []byte) ([]byte, error) {
	if s.fails(key) {
		return nil, errKeyStoreRead
	}
	return s.TxnStore.Get(ctx, key)
}

func (s *encFaultStore) Has(ctx context.Context, key []byte) (bool, error) {
	if s.fails(key) {
		return false, errKeyStoreRead
	}
	return s.TxnStore.Has(ctx, key)
}

func (s *encFaultStore) NewTxn(readonly bool) corekv.Txn {
	return &encFaultTxn{Txn: s.TxnStore.NewTxn(readonly), s: s}
}

type encFaultTxn struct {
	corekv.Txn
	s *encFaultStore
}

func (t *encFaultTxn) Get(ctx context.Context, key []byte) ([]byte, error) {
	if t.s.fails(key) {
		return nil, errKeyStoreRead
	}
	return t.Txn.Get(ctx, key)
}

func (t *encFaultTxn) Has(ctx context.Context, key []byte) (bool, error) {
	if t.s.fails(key) {
		return false, errKeyStoreRead
	}
	return t.Txn.Has(ctx, key)
}

// newFaultCluster boots the three nodes on encFaultStores (hx.NewCluster boots plain nodes).
func newFaultCluster(n int, sdl string) (*hx.Cluster, []*encFaultStore) {
	cl := &hx.Cluster{}
	var stores []*encFaultStore
	for i := 0; i < n; i++ {
		st := newEncFaultStore()
		nd, err := hx.NewFaultNodeOn(st)
		if err != nil {
			_ = st.Close()
			cl.Close()
			hx.Harnessf("cannot boot node: %v", err)
		}
		if _, err := nd.DB.AddSchema(nd.Ctx, sdl); err != nil {
			nd.Close()
			cl.Close()
			hx.Harnessf("schema rejected: %v", err)
		}
		cl.Nodes = append(cl.Nodes, nd)
		cl.Taps = append(cl.Taps, hx.NewEventTap(nd))
		stores = append(stores, st)
	}
	return cl, stores
}
