package c11

import (
	"encoding/binary"
	"encoding/hex"
	"fmt"
	"math"
	"sort"
	"strconv"
	"strings"

	"pgregory.net/rapid"
)

// Schema of the one collection: every field kind of the design plus a counter.
// `tag` is a plain marker field that is never listed in encryptFields.
//
// The collection deliberately has fewer than 10 field ids (8 fields + _docID): with 10 or more,
// heads.List scans "/d/<docID>/1" without a separator and field 1 sees the heads of fields 10..19
// (a C13 finding with its own proposed fix), which would make field 1 inherit the key of another
// field and spoil the unencrypted controls of this check.
var allFields = []string{"s", "i", "f", "bl", "j", "a", "pn", "tag"}

var fieldKind = map[string]string{
	"s": "str", "tag": "str", "i": "int", "f": "flt", "bl": "blob", "j": "json", "a": "arr",
	"pn": "cint",
}

func sdl(branchable bool) string {
	dir := ""
	if branchable {
		dir = " @branchable"
	}
	return `type Users` + dir + ` {
		s: String
		tag: String
		i: Int
		f: Float
		bl: Blob
		j: JSON
		a: [String]
		pn: Int @crdt(type: pncounter)
	}`
}

func isCounter(f string) bool { return f == "pn" }

// Val is one concrete field value. The byte patterns by which it is searched
// ("needles") are derived from it, never stored.
type Val struct {
	// K: str int flt blob json arr cint null
	K string `json:"k"`
	// S: the string; hex of the blob
	S string `json:"s,omitempty"`
	// I: the integer / integer increment
	I int64 `json:"i,omitempty"`
	// U: IEEE-754 bits of the float / float increment
	U uint64 `json:"u,omitempty"`
	// L: array elements; JSON leaves (j = {"k": L[0], "n": {"m": L[1]}})
	L []string `json:"l,omitempty"`
	// Weak is set when the route only admits a 32-bit integer: too short to be searched for
	Weak bool `json:"weak,omitempty"`
}

// FieldVal is one field assignment.
type FieldVal struct {
	F string `json:"f"`
	V Val    `json:"v"`
}

// DocSpec describes one document: how it is created and protected.
type DocSpec struct {
	// Mode: none (control) | doc (encrypt:true) | fields (encryptFields) | both
	Mode string `json:"mode"`
	// EncFields is the encryptFields list (modes fields and both)
	EncFields []string `json:"enc_fields,omitempty"`
	// Route of the create: api (collection API with options) | gql (create_Users(input:…, encrypt:…, encryptFields:…))
	Route  string     `json:"route"`
	Create []FieldVal `json:"create"`
	// Deny lists encrypted fields whose individual key the harness-KMS withholds from the
	// otherwise key-holding node 1 (receiver with a part of the keys)
	Deny []string `json:"deny,omitempty"`
}

// Op is one step of the history.
type Op struct {
	// Kind: update | delete | deliver | kwrite (the key-less node 2 writes Set[0], a field that is
	// encrypted field by field, of a document in mode "fields"; skipped otherwise)
	Kind string `json:"kind"`
	Doc  int    `json:"doc"`
	// Node: writer (0 creator, 1 key-holding peer) for update/delete, receiver (1 key-holding, 2 key-less) for deliver
	Node  int        `json:"node"`
	Route string     `json:"route,omitempty"`
	Set   []FieldVal `json:"set,omitempty"`
	// KeyFault (update/delete): the write runs while the writer's key store is unavailable:
	// read = every read under /db/enc fails; read-nth = only the Nth one; gone = the /db/enc
	// entries are removed for the duration of the write (and restored afterwards)
	KeyFault string `json:"key_fault,omitempty"`
	Nth      int    `json:"nth,omitempty"`
}

// Case is one generated history.
type Case struct {
	Branchable bool      `json:"branchable,omitempty"`
	Docs       []DocSpec `json:"docs"`
	Ops        []Op      `json:"ops"`
	// AvoidLate records that the generator switch "no field of an encrypted scope is first
	// written after creation" was applied (search past the known finding)
	AvoidLate bool `json:"avoid_late,omitempty"`
}

// ---- value construction ----------------------------------------------------

func splitmix(x uint64) uint64 {
	x += 0x9e3779b97f4a7c15
	x = (x ^ (x >> 30)) * 0xbf58476d1ce4e5b9
	x = (x ^ (x >> 27)) * 0x94d049bb133111eb
	return x ^ (x >> 31)
}

const b62 = "ABCDEFGHIJKLMNOPQRSTUVWXYZabcdefghijklmnopqrstuvwxyz0123456789"

// needleString: 12 characters; bits are mixed so that rapid's bias to small draws
// (and shrinking) never produces repeated or degenerate patterns. serial makes
// every needle of a case distinct by construction.
func needleString(serial int, seed uint64) string {
	a := splitmix(seed ^ uint64(serial)*0xd1342543de82ef95)
	b := splitmix(a ^ 0xabcdef)
	out := make([]byte, 12)
	for i := 0; i < 6; i++ {
		out[i] = b62[a%62]
		a /= 62
		out[6+i] = b62[b%62]
		b /= 62
	}
	return string(out)
}

type valGen struct {
	serial int
}

func (g *valGen) next() int { g.serial++; return g.serial }

// make builds a value of the field's kind. gql restricts integers to 31 bits.
func (g *valGen) make(field string, seed uint64, gql bool) Val {
	n := g.next()
	m := splitmix(seed ^ uint64(n)*0xd1342543de82ef95)
	switch fieldKind[field] {
	case "str":
		return Val{K: "str", S: needleString(n, seed)}
	case "int":
		if gql {
			v := int64(m>>34) | 1<<29
			if m&1 == 1 {
				v = -v
			}
			return Val{K: "int", I: v, Weak: true}
		}
		v := int64(m>>2 | 1<<61)
		if m&1 == 1 {
			v = -v
		}
		return Val{K: "int", I: v}
	case "flt":
		exp := uint64(0x3C0 + (m>>52)%0x80)
		bits := (m & (1<<52 - 1)) | exp<<52 | (m>>63)<<63
		return Val{K: "flt", U: bits}
	case "blob":
		var b [12]byte
		binary.BigEndian.PutUint64(b[:8], m)
		binary.BigEndian.PutUint32(b[8:], uint32(splitmix(m)))
		return Val{K: "blob", S: hex.EncodeToString(b[:])}
	case "json":
		return Val{K: "json", L: []string{needleString(n, seed), needleString(g.next(), seed)}}
	case "arr":
		return Val{K: "arr", L: []string{needleString(n, seed), needleString(g.next(), seed)}}
	case "cint":
		if gql {
			v := int64(m>>36) | 1<<27
			if m&1 == 1 {
				v = -v
			}
			return Val{K: "cint", I: v, Weak: true}
		}
		v := int64(m>>9 | 1<<55) // [2^55, 2^56): an 8-byte CBOR integer; 13 of them cannot overflow
		if m&1 == 1 {
			v = -v
		}
		return Val{K: "cint", I: v}
	}
	panic("no kind for field " + field)
}

// needles returns the byte patterns whose presence in shared bytes would reveal the value.
func (v Val) needles() [][]byte {
	switch v.K {
	case "str":
		return [][]byte{[]byte(v.S)}
	case "int", "cint":
		if v.Weak {
			return nil
		}
		u := uint64(v.I)
		if v.I < 0 {
			u = uint64(-1 - v.I) // CBOR major type 1 carries -1-n
		}
		var b [8]byte
		binary.BigEndian.PutUint64(b[:], u)
		return [][]byte{b[:]}
	case "flt", "cflt":
		var b [8]byte
		binary.BigEndian.PutUint64(b[:], v.U)
		return [][]byte{b[:]}
	case "blob":
		// whichever way the codec stores a blob: the raw bytes or their hex text
		raw, _ := hex.DecodeString(v.S)
		return [][]byte{raw, []byte(v.S), []byte(strings.ToUpper(v.S))}
	case "json", "arr":
		out := [][]byte{}
		for _, s := range v.L {
			out = append(out, []byte(s))
		}
		return out
	}
	return nil
}

// goValue is the value handed to the collection API (NewDocFromMap / Document.Set).
func (v Val) goValue() any {
	switch v.K {
	case "null":
		return nil
	case "str", "blob":
		return v.S
	case "int", "cint":
		return v.I
	case "flt", "cflt":
		return math.Float64frombits(v.U)
	case "json":
		return map[string]any{"k": v.L[0], "n": map[string]any{"m": v.L[1]}}
	case "arr":
		return []any{v.L[0], v.L[1]}
	}
	panic("goValue " + v.K)
}

// gqlLiteral renders the value inside a GraphQL input object.
func (v Val) gqlLiteral() string {
	switch v.K {
	case "null":
		return "null"
	case "str", "blob":
		return strconv.Quote(v.S)
	case "int", "cint":
		return strconv.FormatInt(v.I, 10)
	case "flt", "cflt":
		s := strconv.FormatFloat(math.Float64frombits(v.U), 'g', -1, 64)
		if !strings.ContainsAny(s, ".e") {
			s += ".0"
		}
		return s
	case "json":
		return fmt.Sprintf(`{k: %q, n: {m: %q}}`, v.L[0], v.L[1])
	case "arr":
		return fmt.Sprintf(`[%q, %q]`, v.L[0], v.L[1])
	}
	panic("gqlLiteral " + v.K)
}

// ---- generator ---------------------------------------------------------------

func subset(t *rapid.T, label string, from []string, pct int) []string {
	out := []string{}
	for _, f := range from {
		if rapid.IntRange(0, 99).Draw(t, label+":"+f) < pct {
			out = append(out, f)
		}
	}
	return out
}

func contains(l []string, s string) bool {
	for _, x := range l {
		if x == s {
			return true
		}
	}
	return false
}

// encryptable lists the fields that may be named in encryptFields (tag stays plain on purpose:
// every field-level document keeps at least one control needle).
var encryptable = []string{"s", "i", "f", "bl", "j", "a", "pn"}

func (d DocSpec) encrypted(field string) bool {
	switch d.Mode {
	case "doc", "both":
		return true
	case "fields":
		return contains(d.EncFields, field)
	}
	return false
}

// denied: node 1 is refused the individual key of this field. An individual key exists only for
// a listed field that had a value (or null) in the creating write; a listed field written later
// has none (it is in clear - the listed finding - or, once that is repaired for document-level
// encryption, under the document key, which node 1 holds).
func (d DocSpec) denied(field string) bool {
	return contains(d.Deny, field) && contains(d.EncFields, field) && d.createdWith(field)
}

func (d DocSpec) createdWith(field string) bool {
	for _, fv := range d.Create {
		if fv.F == field {
			return true
		}
	}
	return false
}

// drawCase draws the whole case up front. avoidDoc / avoidField say whether the generator
// switch of the respective known finding applies to this case.
func drawCase(t *rapid.T, avoidDocLate, avoidFieldLate bool) Case {
	g := &valGen{}
	c := Case{Branchable: rapid.IntRange(0, 9).Draw(t, "branchable") == 9}
	seed := func(l string) uint64 { return rapid.Uint64().Draw(t, l) }

	nd := rapid.IntRange(1, 2).Draw(t, "ndocs")
	for di := 0; di < nd; di++ {
		d := DocSpec{}
		d.Mode = rapid.SampledFrom([]string{"doc", "doc", "doc", "fields", "fields", "fields", "both", "none"}).Draw(t, "mode")
		if di == 1 && c.Docs[0].Mode != "none" && rapid.Bool().Draw(t, "second-is-control") {
			d.Mode = "none"
		}
		d.Route = rapid.SampledFrom([]string{"api", "api", "gql"}).Draw(t, "route")
		gql := d.Route == "gql"
		if d.Mode == "fields" || d.Mode == "both" {
			d.EncFields = subset(t, "enc", encryptable, 40)
			if len(d.EncFields) == 0 {
				d.EncFields = []string{rapid.SampledFrom(encryptable).Draw(t, "enc1")}
			}
		}
		// fields present at creation; the rest is first written later (or never)
		present := subset(t, "present", allFields, 60)
		for _, f := range allFields {
			if !contains(present, f) {
				continue
			}
			if !isCounter(f) && rapid.IntRange(0, 9).Draw(t, "null:"+f) == 9 {
				d.Create = append(d.Create, FieldVal{F: f, V: Val{K: "null"}})
				continue
			}
			d.Create = append(d.Create, FieldVal{F: f, V: g.make(f, seed("v:"+f), gql)})
		}
		// at least one value, so that two documents of a case never have the same content (docID)
		nonNull := false
		for _, fv := range d.Create {
			nonNull = nonNull || fv.V.K != "null"
		}
		if !nonNull {
			kept := d.Create[:0]
			for _, fv := range d.Create {
				if fv.F != "tag" {
					kept = append(kept, fv)
				}
			}
			d.Create = append(kept, FieldVal{F: "tag", V: g.make("tag", seed("v:tag"), gql)})
		}
		if (d.Mode == "fields" || d.Mode == "both") && rapid.IntRange(0, 5).Draw(t, "deny") == 5 {
			d.Deny = subset(t, "deny", d.EncFields, 50)
		}
		c.Docs = append(c.Docs, d)
	}

	nops := rapid.IntRange(1, 12).Draw(t, "nops")
	for oi := 0; oi < nops; oi++ {
		op := Op{Doc: rapid.IntRange(0, nd-1).Draw(t, "doc")}
		switch k := rapid.IntRange(0, 19).Draw(t, "kind"); {
		case k < 13:
			op.Kind = "update"
			op.Node = rapid.SampledFrom([]int{0, 0, 0, 1}).Draw(t, "writer")
			op.Route = rapid.SampledFrom([]string{"api", "api", "api", "gql"}).Draw(t, "route")
			gql := op.Route == "gql"
			nf := rapid.IntRange(1, 3).Draw(t, "nf")
			for len(op.Set) < nf {
				f := rapid.SampledFrom(allFields).Draw(t, "f")
				dup := false
				for _, fv := range op.Set {
					dup = dup || fv.F == f
				}
				if dup {
					nf--
					continue
				}
				if gql && fieldKind[f] == "flt" {
					// the GraphQL update route re-parses its patch as JSON with a float parser that is
					// not correctly rounded (a C13 matter): floats are written through the API only
					f = "s"
					for _, fv := range op.Set {
						dup = dup || fv.F == f
					}
					if dup {
						nf--
						continue
					}
				}
				if !isCounter(f) && rapid.IntRange(0, 11).Draw(t, "null") == 11 {
					op.Set = append(op.Set, FieldVal{F: f, V: Val{K: "null"}})
					continue
				}
				op.Set = append(op.Set, FieldVal{F: f, V: g.make(f, seed("v"), gql)})
			}
			if len(op.Set) == 0 {
				op.Set = append(op.Set, FieldVal{F: "s", V: g.make("s", seed("v"), gql)})
			}
		case k < 14:
			op.Kind = "delete"
			op.Node = rapid.SampledFrom([]int{0, 0, 1}).Draw(t, "writer")
		default:
			op.Kind = "deliver"
			op.Node = rapid.SampledFrom([]int{1, 2}).Draw(t, "to")
		}
		if op.Kind != "deliver" {
			switch rapid.IntRange(0, 11).Draw(t, "key-fault") {
			case 9:
				op.KeyFault = "read"
			case 10:
				op.KeyFault = "read-nth"
				op.Nth = rapid.IntRange(1, 4).Draw(t, "nth")
			case 11:
				op.KeyFault = "gone"
			}
		}
		c.Ops = append(c.Ops, op)
		// the key-less node writes an encrypted field of a field-level document, then (mostly) a key
		// holder writes the same field: its new value has a clear head below it and must stay encrypted
		if d := c.Docs[op.Doc%nd]; d.Mode == "fields" && op.Kind == "update" && rapid.IntRange(0, 3).Draw(t, "kwrite") == 0 {
			var regs []string
			for _, f := range d.EncFields {
				if !isCounter(f) && fieldKind[f] != "flt" {
					regs = append(regs, f)
				}
			}
			if len(regs) > 0 {
				f := rapid.SampledFrom(regs).Draw(t, "kf")
				route := rapid.SampledFrom([]string{"api", "gql"}).Draw(t, "kroute")
				c.Ops = append(c.Ops, Op{Kind: "kwrite", Doc: op.Doc, Node: 2, Route: route, Set: []FieldVal{{F: f, V: g.make(f, seed("kv"), route == "gql")}}})
				if rapid.IntRange(0, 3).Draw(t, "kfollow") > 0 {
					w := rapid.SampledFrom([]int{0, 0, 1}).Draw(t, "kwriter")
					c.Ops = append(c.Ops, Op{Kind: "update", Doc: op.Doc, Node: w, Route: "api", Set: []FieldVal{{F: f, V: g.make(f, seed("kv2"), false)}}})
				}
			}
		}
	}

	// generator switches of the known findings (search past a defect): a field of an
	// encrypted scope that would be first written by a later update is created as null
	// (or with a value) instead, so that it has a field head to inherit the key from.
	for di := range c.Docs {
		d := &c.Docs[di]
		if !((d.Mode == "doc" || d.Mode == "both") && avoidDocLate || d.Mode == "fields" && avoidFieldLate) {
			continue
		}
		for _, op := range c.Ops {
			if op.Kind != "update" || op.Doc != di {
				continue
			}
			for _, fv := range op.Set {
				if d.encrypted(fv.F) && !d.createdWith(fv.F) {
					c.AvoidLate = true
					if isCounter(fv.F) || splitmix(uint64(len(d.Create)))&1 == 0 {
						d.Create = append(d.Create, FieldVal{F: fv.F, V: g.make(fv.F, uint64(len(d.Create)), d.Route == "gql")})
					} else {
						d.Create = append(d.Create, FieldVal{F: fv.F, V: Val{K: "null"}})
					}
				}
			}
		}
		sort.SliceStable(d.Create, func(i, j int) bool { return d.Create[i].F < d.Create[j].F })
	}
	return c
}
