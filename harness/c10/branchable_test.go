package c10

import (
	"encoding/json"
	"fmt"
	"sort"
	"strings"
	"testing"

	"pgregory.net/rapid"

	"github.com/sourcenetwork/defradb/verifharness/hx"
)

// Second phase of C10: permissioned collections declared @branchable. A collection-level commit
// links the commits of EVERY document of the collection, readable or not, so a read "at" such a
// commit (Author(cid: <collection-level commit>)) replays the history of hidden documents too.
//
// The twin of the main phase cannot serve as reference here: a database that never held the hidden
// documents has different collection-level commits (other cids). The oracle is therefore the
// necessary condition the statement implies: no row returned to a requester - whatever filter,
// order, limit or docID argument the read carries - belongs to a document the requester may not
// read NOW (model: owner + reader + updater, '*' grants, public documents), and a by-docID read of
// a hidden document at a collection-level commit answers like the same read of a document id that
// does not exist. Readable documents that the commit's history contains must be returned with the
// values the model holds for them at that point (checked for the owner of everything: identity 0
// creates all private documents in half of the cases).

// BOp is one step of a branchable history.
type BOp struct {
	K   string `json:"k"`             // create update delete grant revoke
	By  int    `json:"by"`            // creator -1 (public document) .. 2
	Doc int    `json:"doc,omitempty"` // index modulo the documents created so far
	S   int    `json:"s,omitempty"`   // name pool index
	I   int    `json:"i,omitempty"`   // age
	To  int    `json:"to,omitempty"`  // grant/revoke target 0..2, 3 = '*'
	Rel string `json:"rel,omitempty"` // reader updater
}

// BRead is one read shape issued at every chosen collection-level commit by every requester.
type BRead struct {
	Args string `json:"args"` // extra arguments after cid: "" | filter | order+limit | docID of document $D
	Doc  int    `json:"doc,omitempty"`
}

// BCase is one branchable history plus the read shapes.
type BCase struct {
	Branchable bool    `json:"branchable"` // always true; kept so that the case JSON says what it is
	Ops        []BOp   `json:"ops"`
	Reads      []BRead `json:"reads"`
	// Pick selects which collection-level commits are read at (indices modulo their number).
	Pick []int `json:"pick"`
}

type bdoc struct {
	id      string
	k       int
	owner   int
	name    string
	age     int
	deleted bool
	rel     map[string]map[int]bool
}

func (d *bdoc) canRead(r int) bool {
	if d.owner < 0 || r == d.owner {
		return true
	}
	for _, rel := range []string{"reader", "updater"} {
		if m := d.rel[rel]; m != nil && (m[3] || (r >= 0 && m[r])) {
			return true
		}
	}
	return false
}

func drawBCase(t *rapid.T) BCase {
	c := BCase{Branchable: true}
	n := rapid.IntRange(3, 10).Draw(t, "nops")
	created := 0
	for i := 0; i < n; i++ {
		w := rapid.IntRange(0, 99).Draw(t, "kind")
		op := BOp{}
		switch {
		case created < 2 || w < 35:
			op.K = "create"
			// two thirds of the documents are private
			op.By = rapid.SampledFrom([]int{-1, 0, 0, 1, 2, 0}).Draw(t, "by")
			op.S = rapid.IntRange(0, len(names)-1).Draw(t, "s")
			op.I = rapid.IntRange(0, 5).Draw(t, "i")
			created++
		case w < 65:
			op.K = "update"
			op.Doc = rapid.IntRange(0, 7).Draw(t, "doc")
			op.S = rapid.IntRange(0, len(names)-1).Draw(t, "s")
			op.I = rapid.IntRange(0, 5).Draw(t, "i")
		case w < 70:
			op.K = "delete"
			op.Doc = rapid.IntRange(0, 7).Draw(t, "doc")
		case w < 90:
			op.K = "grant"
			op.Doc = rapid.IntRange(0, 7).Draw(t, "doc")
			op.To = rapid.IntRange(0, 3).Draw(t, "to")
			op.Rel = rapid.SampledFrom([]string{"reader", "reader", "updater"}).Draw(t, "rel")
		default:
			op.K = "revoke"
			op.Doc = rapid.IntRange(0, 7).Draw(t, "doc")
			op.To = rapid.IntRange(0, 3).Draw(t, "to")
			op.Rel = rapid.SampledFrom([]string{"reader", "reader", "updater"}).Draw(t, "rel")
		}
		c.Ops = append(c.Ops, op)
	}
	shapes := []string{"", "", `filter: {age: {_ge: 0}}`, `filter: {name: {_ne: "zz"}}`, `filter: {_or: [{age: {_le: 2}}, {name: {_eq: "a"}}]}`,
		`order: {k: ASC}, limit: 2`, `order: {age: DESC}`, `docID: "$D"`, `docID: "$D"`, `showDeleted: true`}
	nr := rapid.IntRange(2, 4).Draw(t, "nreads")
	for i := 0; i < nr; i++ {
		c.Reads = append(c.Reads, BRead{Args: rapid.SampledFrom(shapes).Draw(t, "shape"), Doc: rapid.IntRange(0, 7).Draw(t, "rdoc")})
	}
	np := rapid.IntRange(1, 3).Draw(t, "npick")
	for i := 0; i < np; i++ {
		c.Pick = append(c.Pick, rapid.IntRange(0, 63).Draw(t, "pick"))
	}
	return c
}

func runBranchable(c BCase) (*hx.Failure, []string) {
	labels := map[string]bool{"branchable-acp-case": true}
	n := bootWith(false, nil, true)
	defer closeNode(n)
	var docs []*bdoc
	live := func(i int) *bdoc {
		if len(docs) == 0 {
			return nil
		}
		return docs[i%len(docs)]
	}
	for _, op := range c.Ops {
		switch op.K {
		case "create":
			k := len(docs)
			q := fmt.Sprintf(`mutation { create_Author(input: {k: %d, name: %q, age: %d}) { _docID } }`, k, names[op.S%len(names)], op.I)
			r := exec(n, op.By, q)
			if !r.OK() || len(r.Rows("create_Author")) != 1 {
				hx.Harnessf("branchable create rejected: %s", show(r))
			}
			id, _ := r.Rows("create_Author")[0]["_docID"].(string)
			docs = append(docs, &bdoc{id: id, k: k, owner: op.By, name: names[op.S%len(names)], age: op.I, rel: map[string]map[int]bool{}})
		case "update":
			d := live(op.Doc)
			if d == nil || d.deleted {
				continue
			}
			by := d.owner
			q := fmt.Sprintf(`mutation { update_Author(docID: %q, input: {name: %q, age: %d}) { _docID } }`, d.id, names[op.S%len(names)], op.I)
			if r := exec(n, by, q); !r.OK() {
				hx.Harnessf("branchable update by the owner rejected: %s", show(r))
			}
			d.name, d.age = names[op.S%len(names)], op.I
		case "delete":
			d := live(op.Doc)
			if d == nil || d.deleted {
				continue
			}
			q := fmt.Sprintf(`mutation { delete_Author(docID: %q) { _docID } }`, d.id)
			if r := exec(n, d.owner, q); !r.OK() {
				hx.Harnessf("branchable delete by the owner rejected: %s", show(r))
			}
			d.deleted = true
			labels["branchable:delete"] = true
		case "grant", "revoke":
			d := live(op.Doc)
			if d == nil || d.owner < 0 {
				continue
			}
			target := "*"
			if op.To < 3 {
				target = identities[op.To].DID()
			}
			ctx := withID(n.Ctx, d.owner)
			var err error
			if op.K == "grant" {
				_, err = n.DB.AddDACActorRelationship(ctx, "Author", d.id, op.Rel, target)
			} else {
				_, err = n.DB.DeleteDACActorRelationship(ctx, "Author", d.id, op.Rel, target)
			}
			if err != nil {
				hx.Harnessf("branchable %s by the owner rejected: %v", op.K, err)
			}
			if d.rel[op.Rel] == nil {
				d.rel[op.Rel] = map[int]bool{}
			}
			d.rel[op.Rel][op.To] = op.K == "grant"
			labels["branchable:"+op.K] = true
		}
	}
	// collection-level commits: commits without document id
	r := exec(n, -1, `query { commits { cid docID fieldName height } }`)
	if !r.OK() {
		hx.Harnessf("branchable commits listing: %s", show(r))
	}
	type cc struct {
		cid string
		h   int64
	}
	var ccs []cc
	for _, m := range r.Rows("commits") {
		if id, _ := m["docID"].(string); id != "" {
			continue
		}
		h, _ := m["height"].(json.Number)
		hi, _ := h.Int64()
		c, _ := m["cid"].(string)
		ccs = append(ccs, cc{c, hi})
	}
	sort.Slice(ccs, func(i, j int) bool {
		if ccs[i].h != ccs[j].h {
			return ccs[i].h < ccs[j].h
		}
		return ccs[i].cid < ccs[j].cid
	})
	if len(ccs) == 0 {
		hx.Harnessf("a @branchable collection with %d documents has no collection-level commit", len(docs))
	}
	byID := map[string]*bdoc{}
	for _, d := range docs {
		byID[d.id] = d
	}
	picked := map[int]bool{}
	for _, p := range c.Pick {
		picked[p%len(ccs)] = true
	}
	picked[len(ccs)-1] = true // the latest one always: its history holds every document
	for idx := range ccs {
		if !picked[idx] {
			continue
		}
		at := ccs[idx]
		for _, rd := range c.Reads {
			args := rd.Args
			var target *bdoc
			if strings.Contains(args, "$D") {
				target = live(rd.Doc)
				args = strings.ReplaceAll(args, "$D", target.id)
			}
			sep := ""
			if args != "" {
				sep = ", "
			}
			q := fmt.Sprintf(`query { Author(cid: %q%s%s) { _docID k name age } }`, at.cid, sep, args)
			for req := -1; req <= 2; req++ {
				res := exec(n, req, q)
				rec.AddEvals(1)
				if res.Panic != "" {
					return hx.Failf("C10/panic/time-travel-collection-commit", "%s by %s panicked: %s", q, who(req), res.Panic), keys(labels)
				}
				hiddenExist := false
				for _, d := range docs {
					hiddenExist = hiddenExist || !d.canRead(req)
				}
				if hiddenExist {
					labels["branchable:read-at-collection-commit-with-hidden-docs"] = true
				}
				if target != nil && !target.canRead(req) {
					labels["branchable:by-docID-read-of-hidden-doc-at-collection-commit"] = true
					// like a document id that does not exist: nothing of it may come back
					if rows := res.Rows("Author"); len(rows) > 0 {
						return hx.Failf("C10/leak/time-travel/collection-commit/by-docID", "%s by %s returned %v although %s may not read document k=%d (owner %s)", q, who(req), rows, who(req), target.k, who(target.owner)), keys(labels)
					}
					continue
				}
				for _, row := range res.Rows("Author") {
					id, _ := row["_docID"].(string)
					d := byID[id]
					if d == nil {
						return hx.Failf("C10/time-travel/collection-commit/unknown-row", "%s by %s returned a row the history never created: %v", q, who(req), row), keys(labels)
					}
					if !d.canRead(req) {
						return hx.Failf("C10/leak/time-travel/collection-commit", "%s by %s returned document k=%d (owner %s, name %q, age %d) which %s may not read: row %v; all rows %v",
							q, who(req), d.k, who(d.owner), d.name, d.age, who(req), row, res.Rows("Author")), keys(labels)
					}
				}
				if res.OK() && args == "" && idx == len(ccs)-1 {
					// at the latest collection-level commit without further arguments every readable live
					// document must be there: the check is not satisfied by answering nothing
					got := map[string]bool{}
					for _, row := range res.Rows("Author") {
						id, _ := row["_docID"].(string)
						got[id] = true
					}
					for _, d := range docs {
						if d.canRead(req) && !d.deleted && !got[d.id] {
							return hx.Failf("C10/time-travel/collection-commit/readable-doc-missing", "%s by %s lacks the live document k=%d (owner %s) which %s may read; rows %v", q, who(req), d.k, who(d.owner), who(req), res.Rows("Author")), keys(labels)
						}
					}
					labels["branchable:completeness-checked-at-latest-commit"] = true
				}
			}
		}
	}
	return nil, keys(labels)
}

func keys(m map[string]bool) []string {
	out := []string{}
	for k := range m {
		out = append(out, k)
	}
	sort.Strings(out)
	return out
}

func TestC10Branchable(t *testing.T) {
	rapid.Check(t, func(t *rapid.T) {
		c := drawBCase(t)
		var labels []string
		f := hx.Guard("C10", func() *hx.Failure {
			var f *hx.Failure
			f, labels = runBranchable(c)
			return f
		})
		nt := false
		for _, l := range labels {
			nt = nt || l == "branchable:read-at-collection-commit-with-hidden-docs"
		}
		rec.Eval(c, nt, labels...)
		rec.Check(t, c, f)
	})
}
