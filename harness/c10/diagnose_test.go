package c10

import (
	"regexp"
	"strings"

	"github.com/sourcenetwork/defradb/verifharness/hx"
)

// Diagnosers: each decides whether a concrete discrepancy between the real node and the twin is FULLY explained by
// one listed finding. When in doubt they say no and the caller reports the generic signature.

// explainedByCommitLeak: the commits-family answer of the real node is the twin's answer plus commits that all belong
// to documents the requester may not read; nothing the twin returns is missing and the real node reports no error.
func (e *env) explainedByCommitLeak(r int, key string, real, twin hx.Result) bool {
	if !real.OK() || twin.Panic != "" {
		return false
	}
	if !twin.OK() && len(twin.Rows(key)) > 0 {
		return false
	}
	hidden := map[string]bool{}
	for col := 0; col < 2; col++ {
		for _, d := range e.docs[col] {
			if !d.canRead(r) {
				hidden[d.id] = true
			}
		}
	}
	have := map[string]int{}
	for _, row := range twin.Rows(key) {
		have[hx.Canon(row)]++
	}
	extras := 0
	for _, row := range real.Rows(key) {
		c := hx.Canon(row)
		if have[c] > 0 {
			have[c]--
			continue
		}
		id, _ := row["docID"].(string)
		if !hidden[id] {
			return false
		}
		extras++
	}
	for _, n := range have {
		if n > 0 {
			return false // the twin shows a commit the real node does not
		}
	}
	return extras > 0
}

// explainedByEmptyNotifications: the real node's message sequence is the twin's sequence with additional messages
// that carry no row (an empty list, or an error without data).
func explainedByEmptyNotifications(key string, real, twin []hx.Result) bool {
	j, extras := 0, 0
	for _, m := range real {
		if j < len(twin) && show(m) == show(twin[j]) {
			j++
			continue
		}
		if m.Panic != "" || len(m.Rows(key)) > 0 {
			return false
		}
		extras++
	}
	return j == len(twin) && extras > 0
}

var idxFilterRe = regexp.MustCompile(`Author\([^)]*filter: \{[^)]*age: \{_(eq|in|gt|ge|lt|le)`)

// queryLabels classifies a generated query by the paths it exercises.
func queryLabels(q string, relIdx bool) []string {
	out := []string{"query"}
	has := func(s string) bool { return strings.Contains(q, s) }
	if has("filter:") {
		out = append(out, "query:filter")
	}
	if idxFilterRe.MatchString(q) {
		out = append(out, "query:index-backed-filter")
	}
	if has("order:") {
		out = append(out, "query:order")
	}
	if has("limit:") {
		out = append(out, "query:limit")
	}
	if has("groupBy:") {
		out = append(out, "query:groupBy")
	}
	if has("_count(") || has("_sum(") || has("_avg(") || has("_min(") || has("_max(") {
		out = append(out, "query:aggregate")
	}
	if has("books") || has("author {") || has("author: {") {
		out = append(out, "query:join")
		if relIdx {
			out = append(out, "query:join-with-relation-index")
		}
	}
	if has("books: {") || has("author: {") {
		out = append(out, "query:filter-through-relation")
	}
	if has("docID:") || has("_docID:") {
		out = append(out, "query:docID-lookup")
	}
	if has("showDeleted") {
		out = append(out, "query:showDeleted")
	}
	if has("_version") {
		out = append(out, "query:_version")
	}
	return out
}
