package c10

import (
	"context"
	"encoding/json"
	"fmt"
	"os"
	"regexp"
	"runtime/debug"
	"sort"
	"strconv"
	"strings"
	"sync"
	"sync/atomic"
	"time"

	badgerds "github.com/dgraph-io/badger/v4"
	corebadger "github.com/sourcenetwork/corekv/badger"
	"github.com/sourcenetwork/immutable"

	"github.com/sourcenetwork/defradb/acp/dac"
	acpIdentity "github.com/sourcenetwork/defradb/acp/identity"
	acpTypes "github.com/sourcenetwork/defradb/acp/types"
	"github.com/sourcenetwork/defradb/client"
	"github.com/sourcenetwork/defradb/crypto"
	"github.com/sourcenetwork/defradb/internal/db"
	"github.com/sourcenetwork/defradb/node"
	"github.com/sourcenetwork/defradb/verifharness/hx"
)

const policy = `
name: c10
description: policy of the C10 check
actor:
  name: actor
resources:
  users:
    permissions:
      read:
        expr: owner + reader + updater
      update:
        expr: owner + updater
      delete:
        expr: owner
    relations:
      owner:
        types:
          - actor
      reader:
        types:
          - actor
      updater:
        types:
          - actor
      admin:
        manages:
          - reader
        types:
          - actor
`

// a syntactically valid cid of a block no node ever holds
const missingCid = "bafyreib6uyxmlg3lf2kcdo6gfzsxdsqbdd4dwxs3xuhrbzc2duc2exn6wu"

const sentinelValue = 1000

var identities = func() []acpIdentity.FullIdentity {
	out := []acpIdentity.FullIdentity{}
	for _, seed := range []byte{0x11, 0x22, 0x33} {
		b := make([]byte, 32)
		for i := range b {
			b[i] = seed
		}
		k, err := crypto.PrivateKeyFromBytes(crypto.KeyTypeSecp256k1, b)
		if err != nil {
			panic(err)
		}
		id, err := acpIdentity.FromPrivateKey(k)
		if err != nil {
			panic(err)
		}
		out = append(out, id)
	}
	return out
}()

func who(id int) string {
	if id < 0 {
		return "anonymous"
	}
	return fmt.Sprintf("identity%d", id)
}

// ---------------------------------------------------------------- model

type mdoc struct {
	col     int
	idx     int
	id      string
	k       int
	owner   int // -1 public
	rel     map[string]map[int]bool
	deleted bool
	// wasGranted[q+1]: requester q could once read the document through a relationship
	wasGranted [4]bool
}

func (d *mdoc) has(rel string, who int) bool {
	m := d.rel[rel]
	if m == nil {
		return false
	}
	if m[3] {
		return true
	}
	return who >= 0 && m[who]
}

func (d *mdoc) canRead(who int) bool {
	if d.owner < 0 {
		return true
	}
	return who == d.owner || d.has("reader", who) || d.has("updater", who)
}

func (d *mdoc) canUpdate(who int) bool {
	if d.owner < 0 {
		return true
	}
	return who == d.owner || d.has("updater", who)
}

func (d *mdoc) canDelete(who int) bool {
	if d.owner < 0 {
		return true
	}
	return who == d.owner
}

func (d *mdoc) canManage(who int, rel string) bool {
	if d.owner < 0 || who < 0 {
		return false
	}
	if who == d.owner {
		return true
	}
	return rel == "reader" && d.has("admin", who)
}

func (d *mdoc) String() string {
	return fmt.Sprintf("%s#%d(%s owner=%s rel=%v deleted=%v)", colName(d.col), d.idx, d.id, who(d.owner), d.rel, d.deleted)
}

type logStep struct {
	doc  *mdoc
	q    string // anonymous GraphQL request that reproduces the step on a public replica
	read bool   // a read with a side effect (time travel): its answer does not matter
}

type stats struct {
	labels     map[string]int
	nontrivial int
}

func (s *stats) add(l string) {
	if s.labels == nil {
		s.labels = map[string]int{}
	}
	s.labels[l]++
}

func (s *stats) labelList() []string {
	out := []string{}
	for l, n := range s.labels {
		for i := 0; i < n; i++ {
			out = append(out, l)
		}
	}
	sort.Strings(out)
	return out
}

type env struct {
	probeLeak *hx.Failure // set by the registration probe
	c        Case
	real     *hx.Node // document ACP, documents owned as the history says
	full     *hx.Node // every document, all public: helper for cids, filter targets, non-triviality; never the oracle of a read
	docs     [2][]*mdoc
	log      []logStep
	nextK    int
	missing  [2]string // docIDs that never exist
	st       *stats
	known    *hx.Failure
	cidCache map[string]*docCids

	nSentinel int
	lastTo    *int
	forceDoc  *mdoc // span: the document the next update/grant/revoke applies to
	guard     *guardACP
}

type docCids struct {
	composite []string
	field     []string
}

type twin struct {
	n *hx.Node
	r int
}

// livelockLimit bounds the document access checks of ONE request on the real node. A case holds fewer than 40
// documents; a request that needs more than this many checks is not making progress (deterministic, no wall clock).
const livelockLimit = 1000

const livelockMarker = "C10 livelock guard"

// guardACP counts access checks and panics when one request exceeds the limit.
type guardACP struct {
	dac.DocumentACP
	n       atomic.Int64
	tripped atomic.Bool
	// probe, when set, runs at the moment the database hands a new private document to the access
	// control for registration: the document is not registered yet, so it must not be readable by
	// anybody else yet either (on the pinned tree the registration happens inside the creating
	// transaction, before its commit).
	probe func(docID string)
}

func (g *guardACP) RegisterDocObject(
	ctx context.Context,
	identity acpIdentity.Identity,
	policyID string,
	resourceName string,
	docID string,
) error {
	if g.probe != nil {
		g.probe(docID)
	}
	return g.DocumentACP.RegisterDocObject(ctx, identity, policyID, resourceName, docID)
}

func (g *guardACP) CheckDocAccess(
	ctx context.Context,
	permission acpTypes.DocumentResourcePermission,
	actorID string,
	policyID string,
	resourceName string,
	docID string,
) (bool, error) {
	if g.n.Add(1) > livelockLimit {
		// the flag, not the panic text, is the signal: a deferred Txn.Discard of the code under test may replace the
		// panic value on the way up ("Unclosed iterator at time of Txn.Discard")
		g.tripped.Store(true)
		if trace {
			fmt.Fprintf(os.Stderr, "GUARDSTACK %s\n", debug.Stack())
		}
		panic(fmt.Sprintf("%s: more than %d access checks in one request (last on %s)", livelockMarker, livelockLimit, docID))
	}
	return g.DocumentACP.CheckDocAccess(ctx, permission, actorID, policyID, resourceName, docID)
}

// boot builds a node on Badger in-memory with local document ACP (in memory), signing off, the policy and the schema.
// With guard != nil the document ACP is wrapped by the livelock guard.
func boot(relIdx bool, guard *guardACP) *hx.Node { return bootWith(relIdx, guard, false) }

// bootWith: branchable declares both collections @branchable (collection-level commits link the
// commits of every document of the collection).
func bootWith(relIdx bool, guard *guardACP, branchable bool) *hx.Node {
	ctx := context.Background()
	// Badger in memory as node.NewStore builds it, with small arenas: a case boots 4-6 nodes of a few dozen keys
	bopts := badgerds.DefaultOptions("")
	bopts.InMemory = true
	bopts.ValueLogFileSize = 1 << 30
	bopts.MemTableSize = 16 << 20
	bopts.BlockCacheSize = 1 << 20
	store, err := corebadger.NewDatastore("", bopts)
	if err != nil {
		hx.Harnessf("store: %v", err)
	}
	lens, err := node.NewLens(ctx)
	if err != nil {
		hx.Harnessf("lens: %v", err)
	}
	acp, err := node.NewDocumentACP(ctx, node.WithDocumentACPType(node.LocalDocumentACPType))
	if err != nil || !acp.HasValue() {
		hx.Harnessf("document acp: %v", err)
	}
	nac, err := node.NewNodeACP(ctx)
	if err != nil {
		hx.Harnessf("node acp: %v", err)
	}
	if guard != nil {
		guard.DocumentACP = acp.Value()
		acp = immutable.Some[dac.DocumentACP](guard)
	}
	d, err := db.NewDB(ctx, store, nac, acp, lens, db.WithEnabledSigning(false))
	if err != nil {
		hx.Harnessf("db: %v", err)
	}
	n := &hx.Node{Ctx: ctx, DB: d}
	res, err := n.DB.AddDACPolicy(withID(n.Ctx, 0), policy)
	if err != nil {
		closeNode(n)
		hx.Harnessf("policy rejected: %v", err)
	}
	idx := ""
	if relIdx {
		idx = " @index"
	}
	br := ""
	if branchable {
		br = " @branchable"
	}
	sdl := fmt.Sprintf(`
type Author @policy(id: "%s", resource: "users")%s {
	k: Int
	name: String
	age: Int @index
	books: [Book]
}
type Book @policy(id: "%s", resource: "users")%s {
	k: Int
	title: String
	rating: Int
	author: Author%s
}`, res.PolicyID, br, res.PolicyID, br, idx)
	if _, err := n.DB.AddSchema(n.Ctx, sdl); err != nil {
		closeNode(n)
		hx.Harnessf("schema rejected: %v", err)
	}
	return n
}

func closeNode(n *hx.Node) {
	if n != nil && n.DB != nil {
		n.DB.Close()
	}
}

func withID(ctx context.Context, id int) context.Context {
	if id < 0 {
		return ctx
	}
	return acpIdentity.WithContext(ctx, immutable.Some[acpIdentity.Identity](identities[id]))
}

var trace = os.Getenv("C10_TRACE") != ""

func exec(n *hx.Node, id int, q string) hx.Result {
	if trace {
		fmt.Fprintf(os.Stderr, "TRACE %p as %s: %s\n", n, who(id), q)
	}
	return hx.ExecOn(withID(n.Ctx, id), n.DB, q)
}

// livelock is the panic value by which a request that tripped the livelock guard ends the case.
type livelock struct {
	id  int
	req string
	msg string
}

// execReal runs a request on the real node under the livelock guard.
func (e *env) execReal(id int, q string) hx.Result {
	e.guard.n.Store(0)
	r := exec(e.real, id, q)
	if e.guard.tripped.Load() {
		panic(livelock{id: id, req: q, msg: fmt.Sprintf("more than %d document access checks in one request", livelockLimit)})
	}
	return r
}

func (e *env) hiddenIn(col, r int) int {
	n := 0
	for _, d := range e.docs[col] {
		if !d.canRead(r) {
			n++
		}
	}
	return n
}

func show(r hx.Result) string {
	s := hx.Canon(r.Data)
	if len(r.Errors) > 0 {
		s += " errors=" + r.Err()
	}
	if r.Panic != "" {
		s += " PANIC " + firstLine(r.Panic)
	}
	return s
}

func firstLine(s string) string {
	if i := strings.IndexByte(s, '\n'); i >= 0 {
		return s[:i]
	}
	return s
}

func same(a, b hx.Result) bool {
	return hx.Canon(a.Data) == hx.Canon(b.Data) && a.Err() == b.Err() && firstLine(a.Panic) == firstLine(b.Panic)
}

// sameUnordered compares the results of a request that asks for no order: the sequence of the
// top-level rows is then not specified (seen: a showDeleted listing merges the live and the deleted
// documents in an order that depends on the scan), so each top-level list is compared as a multiset.
func sameUnordered(a, b hx.Result) bool {
	if a.Err() != b.Err() || firstLine(a.Panic) != firstLine(b.Panic) {
		return false
	}
	norm := func(r hx.Result) string {
		m, ok := hx.Normalize(r.Data).(map[string]any)
		if !ok {
			return hx.Canon(r.Data)
		}
		out := map[string]any{}
		for k, v := range m {
			if rows, ok := v.([]any); ok {
				ss := make([]string, len(rows))
				for i, row := range rows {
					ss[i] = hx.Canon(row)
				}
				sort.Strings(ss)
				out[k] = ss
			} else {
				out[k] = v
			}
		}
		return hx.Canon(out)
	}
	return norm(a) == norm(b)
}

func (e *env) collection(n *hx.Node, col int) client.Collection {
	c, err := n.DB.GetCollectionByName(n.Ctx, colName(col))
	if err != nil {
		hx.Harnessf("collection %s: %v", colName(col), err)
	}
	return c
}

func (e *env) pickAll(col, idx int) *mdoc {
	l := e.docs[col]
	if len(l) == 0 {
		return nil
	}
	return l[idx%len(l)]
}

func (e *env) pickVisible(r int) func(col, idx int) *mdoc {
	return func(col, idx int) *mdoc {
		l := []*mdoc{}
		for _, d := range e.docs[col] {
			if d.canRead(r) {
				l = append(l, d)
			}
		}
		if len(l) == 0 {
			return nil
		}
		return l[idx%len(l)]
	}
}

func (e *env) invisibleCount(r int) int {
	n := 0
	for col := 0; col < 2; col++ {
		for _, d := range e.docs[col] {
			if !d.canRead(r) {
				n++
			}
		}
	}
	return n
}

func (e *env) noteKnown(f *hx.Failure) {
	if e.known == nil {
		e.known = f
	}
}

// report returns f if it must stop the case (unknown signature), or records it and returns nil (known finding:
// the requests of a checkpoint are reads, so the search goes on behind it).
func (e *env) report(f *hx.Failure) *hx.Failure {
	if f == nil {
		return nil
	}
	if rec.IsKnown(f.Sig) {
		e.noteKnown(f)
		e.st.add("req:known:" + f.Sig)
		return nil
	}
	return f
}

// ---------------------------------------------------------------- run

func run(c Case) (fail *hx.Failure, st *stats) {
	e := &env{c: c, st: &stats{}, guard: &guardACP{}}
	defer func() {
		p := recover()
		if p == nil {
			return
		}
		st = e.st
		switch v := p.(type) {
		case livelock:
			sig := "C10/livelock/other"
			if strings.Contains(v.req, "showDeleted: true") && e.invisibleCount(v.id) > 0 {
				sig = sigLivelock
			}
			fail = hx.Failf(sig, "%s as %s never finishes: %s", v.req, who(v.id), v.msg)
			if trace {
				fmt.Fprintf(os.Stderr, "LIVELOCK avoid=%v %s\n  authors=%v\n  books=%v\n", e.c.AvoidLive, fail.Msg, e.docs[0], e.docs[1])
			}
		case string:
			if strings.Contains(v, livelockMarker) || e.guard.tripped.Load() {
				fail = hx.Failf("C10/livelock/collection-api", "%s", v)
				return
			}
			panic(p)
		default:
			panic(p)
		}
	}()
	e.real = boot(c.RelIdx, e.guard)
	defer closeNode(e.real)
	e.guard.probe = func(docID string) {
		// a request without identity, issued while the document is being registered
		before := e.guard.n.Load()
		for col := 0; col < 2; col++ {
			q := fmt.Sprintf(`query { %s(docID: %q) { _docID } }`, colName(col), docID)
			if r := hx.ExecOn(e.real.Ctx, e.real.DB, q); len(r.Rows(colName(col))) > 0 && e.probeLeak == nil {
				e.probeLeak = hx.Failf("C10/leak/readable-before-registration", "at the moment document %s is handed to the access control for registration (it is not registered yet) a request without identity already reads it: %s -> %s", docID, q, show(r))
			}
		}
		e.guard.n.Store(before)
		e.st.add("probe:anonymous-read-during-registration")
	}
	e.full = boot(c.RelIdx, nil)
	defer closeNode(e.full)
	for col := 0; col < 2; col++ {
		doc, err := client.NewDocFromJSON([]byte(`{"k": -1}`), e.collection(e.full, col).Definition())
		if err != nil {
			hx.Harnessf("missing docID: %v", err)
		}
		e.missing[col] = doc.ID().String()
	}
	for i, op := range c.Ops {
		var f *hx.Failure
		if op.K == "check" {
			f = e.checkpoint(i, op)
		} else {
			f = e.write(op, nil, e.pickAll, false)
		}
		if f == nil && e.probeLeak != nil {
			f = e.probeLeak
		}
		if f != nil {
			f.Msg = fmt.Sprintf("op %d (%s): %s", i, op.K, f.Msg)
			return f, e.st
		}
	}
	return e.known, e.st
}

// ---------------------------------------------------------------- writes

func gqlStr(s string) string {
	b, _ := json.Marshal(s)
	return string(b)
}

func (e *env) input(op Op, create bool, k int) (gql string, js map[string]any) {
	parts := []string{}
	js = map[string]any{}
	sF, iF := "name", "age"
	if op.Col == 1 {
		sF, iF = "title", "rating"
	}
	if create {
		parts = append(parts, fmt.Sprintf("k: %d", k))
		js["k"] = k
	}
	if op.S != nil {
		parts = append(parts, fmt.Sprintf("%s: %s", sF, gqlStr(*op.S)))
		js[sF] = *op.S
	}
	if op.I != nil {
		parts = append(parts, fmt.Sprintf("%s: %d", iF, *op.I))
		js[iF] = *op.I
	}
	if op.Ref != nil && op.Col == 1 {
		id := e.missing[0]
		if a := e.pickAll(0, *op.Ref); a != nil {
			id = a.id
		}
		parts = append(parts, fmt.Sprintf("author_id: %s", gqlStr(id)))
		js["author_id"] = id
	}
	if len(parts) == 0 {
		// an update must write something
		parts = append(parts, fmt.Sprintf("%s: 2", iF))
		js[iF] = 2
	}
	return strings.Join(parts, ", "), js
}

// applyPublic runs an anonymous mutation on the public replica (and the twin when the document is readable there).
func (e *env) applyPublic(d *mdoc, q string, tw *twin) {
	r := exec(e.full, -1, q)
	if !r.OK() {
		hx.Harnessf("public replica rejected %s: %s", q, show(r))
	}
	e.log = append(e.log, logStep{doc: d, q: q})
	e.cidCache = nil
	if tw != nil && d.canRead(tw.r) {
		r := exec(tw.n, -1, q)
		if !r.OK() {
			hx.Harnessf("twin rejected %s: %s", q, show(r))
		}
	}
}

// headCheck: the document's head cid as its writer sees it on the real node equals the public replica's:
// the assumption that makes twin responses comparable (cids independent of the writer).
func (e *env) headCheck(d *mdoc, by int) {
	q := fmt.Sprintf(`query { x: %s(docID: %s, showDeleted: true) { _version { cid } } }`, colName(d.col), gqlStr(d.id))
	a, b := e.execReal(by, q), exec(e.full, -1, q)
	if !b.OK() || len(b.Rows("x")) != 1 {
		hx.Harnessf("public replica has no head for %s: %s", d, show(b))
	}
	if a.OK() && len(a.Rows("x")) == 1 && !same(a, b) {
		hx.Harnessf("head cid of %s differs between the real node (%s) and the public replica (%s): twin comparison is unsound", d, show(a), show(b))
	}
}

// write executes one history step on the real node as the identity the step names, decides from the model
// whether it had to take effect, checks the verdict, and mirrors effective steps on the public replica (and twin).
func (e *env) write(op Op, tw *twin, pick func(col, idx int) *mdoc, forceVisibleCreator bool) *hx.Failure {
	col := op.Col
	switch op.K {
	case "create":
		by := op.By
		if forceVisibleCreator && tw != nil && by != tw.r {
			by = -1
		}
		k := e.nextK
		e.nextK++
		in, js := e.input(op, true, k)
		q := fmt.Sprintf(`mutation { create_%s(input: {%s}) { _docID } }`, colName(col), in)
		var id string
		if op.Via == "api" {
			raw, _ := json.Marshal(js)
			c := e.collection(e.real, col)
			doc, err := client.NewDocFromJSON(raw, c.Definition())
			if err != nil {
				hx.Harnessf("document %s rejected by NewDocFromJSON: %v", raw, err)
			}
			if err := c.Create(withID(e.real.Ctx, by), doc); err != nil {
				return hx.Failf("C10/write/create-rejected", "create of %s as %s through the collection API failed: %v", raw, who(by), err)
			}
			id = doc.ID().String()
		} else {
			r := e.execReal(by, q)
			rows := r.Rows("create_" + colName(col))
			if !r.OK() || len(rows) != 1 {
				return hx.Failf("C10/write/create-rejected", "%s as %s: %s", q, who(by), show(r))
			}
			id, _ = rows[0]["_docID"].(string)
		}
		d := &mdoc{col: col, idx: len(e.docs[col]), id: id, k: k, owner: by, rel: map[string]map[int]bool{}}
		e.docs[col] = append(e.docs[col], d)
		fr := exec(e.full, -1, q)
		frows := fr.Rows("create_" + colName(col))
		if !fr.OK() || len(frows) != 1 || frows[0]["_docID"] != id {
			hx.Harnessf("public replica create %s: %s (real node gave docID %s)", q, show(fr), id)
		}
		e.log = append(e.log, logStep{doc: d, q: q})
		e.cidCache = nil
		if tw != nil && d.canRead(tw.r) {
			if r := exec(tw.n, -1, q); !r.OK() {
				hx.Harnessf("twin rejected %s: %s", q, show(r))
			}
		}
		e.headCheck(d, by)
		e.st.add("op:create")
		if by >= 0 {
			e.st.add("op:create-private")
		}
		return nil

	case "update", "delete":
		d := pick(col, op.Doc)
		if e.forceDoc != nil {
			d = e.forceDoc
		}
		if d == nil {
			return nil
		}
		by := op.By
		if op.ByOwner && d.owner >= 0 {
			by = d.owner
		}
		return e.writeDoc(op, d, by, tw)

	case "recreate":
		// A create with the content of an existing document names the same docID. Whoever issues it, it
		// must be refused and change nothing - in particular it must not write over a document the
		// requester cannot read (which the existence check inside create reports as absent).
		d := pick(col, op.Doc)
		if d == nil {
			return nil
		}
		q := ""
		for _, s := range e.log {
			if s.doc == d && strings.HasPrefix(s.q, "mutation { create_") {
				q = s.q
				break
			}
		}
		if q == "" {
			return nil
		}
		by := op.By
		r := e.execReal(by, q)
		e.st.add("op:recreate")
		if !d.canRead(by) {
			e.st.add("op:recreate-of-unreadable-doc")
		}
		if r.Panic != "" {
			return hx.Failf("C10/panic/recreate", "%s as %s panicked: %s", q, who(by), r.Panic)
		}
		if r.OK() {
			return hx.Failf("C10/write/recreate-accepted", "%s as %s (may read the document: %v) succeeded although %s exists: %s", q, who(by), d.canRead(by), d, show(r))
		}
		return e.docUnchanged(d, fmt.Sprintf("rejected re-create of %s by %s", d, who(by)))

	case "grant", "revoke":
		d := pick(col, op.Doc)
		if e.forceDoc != nil {
			d = e.forceDoc
		}
		if d == nil {
			return nil
		}
		if op.ByOwner && e.forceDoc == nil {
			// relationships only exist on owned documents: prefer one (a public target stays possible with ByOwner off)
			owned := []*mdoc{}
			for _, x := range e.docs[col] {
				if x.owner >= 0 {
					owned = append(owned, x)
				}
			}
			if len(owned) > 0 {
				d = owned[op.Doc%len(owned)]
			}
		}
		by := op.By
		if op.ByOwner && d.owner >= 0 {
			by = d.owner
		}
		if by < 0 {
			by = 0
		}
		if op.K == "revoke" && op.ByOwner {
			// revoke something that exists, if anything does
			type pair struct {
				rel string
				to  int
			}
			pairs := []pair{}
			for _, rel := range []string{"admin", "reader", "updater"} {
				for to := 0; to < 4; to++ {
					if d.rel[rel][to] {
						pairs = append(pairs, pair{rel, to})
					}
				}
			}
			if len(pairs) > 0 {
				p := pairs[(op.To+op.Doc)%len(pairs)]
				op.Rel, op.To = p.rel, p.to
			}
		}
		target := "*"
		if op.To < 3 {
			target = identities[op.To].DID()
		}
		allowed := d.canManage(by, op.Rel)
		var err error
		ctx := withID(e.real.Ctx, by)
		if op.K == "grant" {
			_, err = e.real.DB.AddDACActorRelationship(ctx, colName(col), d.id, op.Rel, target)
		} else {
			_, err = e.real.DB.DeleteDACActorRelationship(ctx, colName(col), d.id, op.Rel, target)
		}
		e.st.add("op:" + op.K)
		if allowed && err != nil {
			return hx.Failf("C10/relationship/authorised-"+op.K+"-rejected", "%s %s on %s to %s by %s (owner or manager) failed: %v", op.K, op.Rel, d, target, who(by), err)
		}
		if !allowed {
			e.st.add("op:" + op.K + "-unauthorised")
			if err == nil {
				return hx.Failf("C10/relationship/unauthorised-"+op.K+"-accepted", "%s %s on %s to %s by %s, who neither owns nor manages it, succeeded", op.K, op.Rel, d, target, who(by))
			}
			return e.matrix(fmt.Sprintf("after rejected %s by %s on %s", op.K, who(by), d))
		}
		if d.rel[op.Rel] == nil {
			d.rel[op.Rel] = map[int]bool{}
		}
		to := op.To
		if to == 3 {
			to = -1
		}
		e.lastTo = &to
		if op.K == "grant" {
			d.rel[op.Rel][op.To] = true
			for q := -1; q < 3; q++ {
				if q != d.owner && d.canRead(q) {
					d.wasGranted[q+1] = true
				}
			}
		} else {
			delete(d.rel[op.Rel], op.To)
		}
		return nil
	}
	hx.Harnessf("unknown op %q", op.K)
	return nil
}

// writeDoc: update or delete of one document by docID.
func (e *env) writeDoc(op Op, d *mdoc, by int, tw *twin) *hx.Failure {
	col := d.col
	name := colName(col)
	perm := d.canUpdate(by)
	if op.K == "delete" {
		perm = d.canDelete(by)
	}
	readable := d.canRead(by)
	// verdict classes: must (take effect), ghost (writer cannot read: must look like a document that does not exist), inert (no effect)
	class := "inert"
	switch {
	case !readable:
		class = "ghost"
	case perm && !d.deleted:
		class = "must"
	}
	e.st.add("op:" + op.K + "-" + class)
	if class == "ghost" {
		e.st.nontrivial++
	}
	in, js := e.input(op, false, 0)
	mk := func(id string) string {
		if op.K == "delete" {
			return fmt.Sprintf(`mutation { delete_%s(docID: %s) { _docID } }`, name, gqlStr(id))
		}
		return fmt.Sprintf(`mutation { update_%s(docID: %s, input: {%s}) { _docID } }`, name, gqlStr(id), in)
	}
	apiPanic := ""
	api := func(id string) (ok bool, text string) {
		e.guard.n.Store(0)
		c := e.collection(e.real, col)
		ctx := withID(e.real.Ctx, by)
		did, err := client.NewDocIDFromString(id)
		if err != nil {
			hx.Harnessf("docID %s: %v", id, err)
		}
		if op.K == "delete" {
			var ok bool
			var err error
			func() {
				defer func() {
					if p := recover(); p != nil {
						st := string(debug.Stack())
						apiPanic = fmt.Sprintf("panic: %v at %s", p, hx.PanicSite(st[strings.Index(st, "panic("):]))
					}
				}()
				ok, err = c.Delete(ctx, did)
			}()
			if apiPanic != "" {
				return false, apiPanic
			}
			return ok && err == nil, fmt.Sprintf("deleted=%v err=%v", ok, err)
		}
		// the regular flow is Get-Set-Update; a writer who cannot Get the document tries with a bare document of that id.
		// (A bare document is never used when Get works: Update of a partial document that omits an indexed field
		// rewrites the index entry as null and a later update reports "corrupted index" - an index defect, not ACP.)
		doc, err := c.Get(ctx, did, false)
		if err != nil {
			doc, err = client.NewDocWithID(did, c.Definition())
			if err != nil {
				hx.Harnessf("NewDocWithID: %v", err)
			}
		}
		for f, v := range js {
			if err := doc.Set(f, v); err != nil {
				hx.Harnessf("doc.Set(%s): %v", f, err)
			}
		}
		err = c.Update(ctx, doc)
		return err == nil, fmt.Sprintf("err=%v", err)
	}
	gql := func(id string) (ok bool, text string) {
		r := e.execReal(by, mk(id))
		key := "update_" + name
		if op.K == "delete" {
			key = "delete_" + name
		}
		return r.OK() && len(r.Rows(key)) == 1, strings.ReplaceAll(show(r), id, "<docID>")
	}
	indexed := col == 0 || e.c.RelIdx
	do := gql
	if op.Via == "api" {
		do = api
		if op.K == "delete" && class != "must" && indexed && e.avoid(sigDelPanic) {
			do = gql
		}
	}
	ok, text := do(d.id)
	what := fmt.Sprintf("%s of %s by %s via %s", op.K, d, who(by), op.Via)
	if apiPanic != "" {
		if class != "must" && indexed && strings.Contains(apiPanic, "GetValue") {
			return hx.Failf(sigDelPanic, "%s: Collection.Delete of a document the caller cannot fetch (hidden, deleted or missing) in a collection with a secondary index dereferences a nil document: %s", what, apiPanic)
		}
		return hx.Failf("C10/panic/collection-delete", "%s: %s", what, apiPanic)
	}
	switch class {
	case "must":
		if !ok {
			return hx.Failf("C10/write/authorised-"+op.K+"-rejected", "%s had to succeed: %s", what, text)
		}
		e.applyPublic(d, mk(d.id), tw)
		if op.K == "delete" {
			d.deleted = true
		}
		e.headCheck(d, by)
		return nil
	case "ghost":
		if ok {
			return hx.Failf("C10/write/unreadable-"+op.K+"-accepted/"+op.Via, "%s succeeded although the writer may not even read the document: %s", what, text)
		}
		_, ref := do(e.missing[col])
		if ref != text {
			return hx.Failf("C10/existence-oracle/"+op.K+"/"+op.Via, "%s answers %q, the same attempt on a docID that does not exist answers %q", what, text, ref)
		}
	default:
		if ok && !d.deleted {
			return hx.Failf("C10/write/unauthorised-"+op.K+"-accepted/"+op.Via, "%s succeeded without the %s permission: %s", what, op.K, text)
		}
		if ok && d.deleted {
			// an effective write on a deleted document is a matter of other properties; keep the replicas in step
			hx.Harnessf("%s succeeded on a deleted document: %s", what, text)
		}
	}
	return e.docUnchanged(d, "after rejected "+what)
}

// docUnchanged: after a write that had to be without effect, the target document as its owner (or anyone, if public)
// sees it on the real node equals the public replica's copy. The full matrix follows at the next checkpoint.
func (e *env) docUnchanged(d *mdoc, where string) *hx.Failure {
	// (no _version next to author_id: that pair panics in the planner - multiScanNode.Source on a nil node - on any node)
	q := fmt.Sprintf(`query { x: %s(docID: %s, showDeleted: true) { _docID _deleted %s } v: %s(docID: %s, showDeleted: true) { _version { cid } } }`,
		colName(d.col), gqlStr(d.id), ownFields(d.col), colName(d.col), gqlStr(d.id))
	a, b := e.execReal(d.owner, q), exec(e.full, -1, q)
	if !b.OK() || len(b.Rows("x")) != 1 {
		hx.Harnessf("public replica lost %s: %s", d, show(b))
	}
	if !same(a, b) {
		return hx.Failf("C10/write/rejected-write-had-effect", "%s: the document changed\n real (as its owner): %s\n history of effective writes: %s", where, show(a), show(b))
	}
	return nil
}

// ---------------------------------------------------------------- visibility matrix

func ownFields(col int) string {
	if col == 0 {
		return "k name age"
	}
	return "k title rating author_id"
}

// matrix compares, for every requester, the plain listing (deleted included) on the real node with the rows of the
// public replica that the model says the requester may read: unauthorised writes changed nothing, grants and revokes
// took effect, nothing readable is hidden.
func (e *env) matrix(where string) *hx.Failure {
	for col := 0; col < 2; col++ {
		q := fmt.Sprintf(`query { x: %s(showDeleted: true) { _docID _deleted %s } }`, colName(col), ownFields(col))
		fr := exec(e.full, -1, q)
		if !fr.OK() {
			hx.Harnessf("public replica listing: %s", show(fr))
		}
		byID := map[string]*mdoc{}
		for _, d := range e.docs[col] {
			byID[d.id] = d
		}
		rows := fr.Rows("x")
		if len(rows) != len(byID) {
			hx.Harnessf("public replica holds %d %s documents, the model %d", len(rows), colName(col), len(byID))
		}
		for r := -1; r < 3; r++ {
			q := q
			// known finding: a listing with showDeleted never finishes for a requester with a hidden document
			// (hidden in ANY collection: a Book listing that selects author_id also scans Author with showDeleted)
			skipDeleted := rec.IsKnown(sigLivelock) && e.invisibleCount(r) > 0
			if skipDeleted {
				q = strings.Replace(q, "showDeleted: true", "showDeleted: false", 1)
			}
			want := []string{}
			wantIDs := map[string]string{}
			for _, row := range rows {
				id, _ := row["_docID"].(string)
				d := byID[id]
				if d == nil {
					hx.Harnessf("public replica lists unknown document %s", id)
				}
				if d.canRead(r) && !(skipDeleted && d.deleted) {
					want = append(want, hx.Canon(row))
					wantIDs[id] = hx.Canon(row)
				}
			}
			rr := e.execReal(r, q)
			if !rr.OK() {
				return hx.Failf("C10/matrix/listing-error", "%s: plain listing %s as %s failed: %s", where, q, who(r), show(rr))
			}
			got := []string{}
			for _, row := range rr.Rows("x") {
				got = append(got, hx.Canon(row))
			}
			if strings.Join(got, "\n") == strings.Join(want, "\n") {
				continue
			}
			gotIDs := map[string]bool{}
			for _, row := range rr.Rows("x") {
				id, _ := row["_docID"].(string)
				gotIDs[id] = true
				if _, ok := wantIDs[id]; !ok {
					return hx.Failf("C10/matrix/unreadable-doc-listed", "%s: %s sees %s in %s, which the relationships do not allow: %s", where, who(r), byID[id], q, hx.Canon(row))
				}
			}
			for id := range wantIDs {
				if !gotIDs[id] {
					return hx.Failf("C10/matrix/readable-doc-hidden", "%s: %s does not see %s in %s although the relationships allow it", where, who(r), byID[id], q)
				}
			}
			return hx.Failf("C10/matrix/content-differs", "%s: listing as %s differs from the history of effective writes:\n real: %s\n want: %s", where, who(r), strings.Join(got, " "), strings.Join(want, " "))
		}
		if col != 0 {
			continue
		}
		// the same through the index on Author.age (a listing ordered by the indexed field is served from the index, which
		// holds an entry for every document, null ages included): a refused write must not have touched the index either
		for r := -1; r < 3; r++ {
			q := `query { x: Author(order: {age: ASC}) { _docID } }`
			want := map[string]bool{}
			for _, row := range rows {
				id, _ := row["_docID"].(string)
				if del, _ := row["_deleted"].(bool); !del && byID[id].canRead(r) {
					want[id] = true
				}
			}
			rr := e.execReal(r, q)
			if !rr.OK() {
				return hx.Failf("C10/matrix/index-served-listing-error", "%s: %s as %s failed: %s", where, q, who(r), show(rr))
			}
			got := map[string]int{}
			for _, row := range rr.Rows("x") {
				id, _ := row["_docID"].(string)
				got[id]++
			}
			for id := range want {
				if got[id] != 1 {
					return hx.Failf("C10/matrix/index-served-listing-differs", "%s: %s as %s returns %s %d times; the plain listing and the history of effective writes have it once", where, q, who(r), byID[id], got[id])
				}
			}
			for id := range got {
				if !want[id] {
					return hx.Failf("C10/matrix/index-served-listing-differs", "%s: %s as %s returns %s, which is not among the live documents readable by the requester", where, q, who(r), byID[id])
				}
			}
		}
	}
	return nil
}

// ---------------------------------------------------------------- twin

func (e *env) buildTwin(r int) *twin {
	n := boot(e.c.RelIdx, nil)
	for _, s := range e.log {
		if s.doc.canRead(r) {
			if res := exec(n, -1, s.q); !res.OK() && !s.read {
				closeNode(n)
				hx.Harnessf("twin rejected %s: %s", s.q, show(res))
			}
		}
	}
	return &twin{n: n, r: r}
}

// ---------------------------------------------------------------- placeholders

var phRe = regexp.MustCompile(`\$([ABab])(\d+)(?:\.(\d+))?`)

func (e *env) cids() map[string]*docCids {
	if e.cidCache != nil {
		return e.cidCache
	}
	r := exec(e.full, -1, `query { commits { cid docID fieldName height } }`)
	if !r.OK() {
		hx.Harnessf("public replica commits: %s", show(r))
	}
	type row struct {
		cid    string
		height int64
		field  bool
	}
	tmp := map[string][]row{}
	for _, m := range r.Rows("commits") {
		id, _ := m["docID"].(string)
		c, _ := m["cid"].(string)
		h, _ := m["height"].(json.Number)
		hi, _ := h.Int64()
		tmp[id] = append(tmp[id], row{cid: c, height: hi, field: m["fieldName"] != "_C"})
	}
	out := map[string]*docCids{}
	for id, rows := range tmp {
		sort.Slice(rows, func(i, j int) bool {
			if rows[i].height != rows[j].height {
				return rows[i].height < rows[j].height
			}
			return rows[i].cid < rows[j].cid
		})
		dc := &docCids{}
		for _, x := range rows {
			if x.field {
				dc.field = append(dc.field, x.cid)
			} else {
				dc.composite = append(dc.composite, x.cid)
			}
		}
		out[id] = dc
	}
	e.cidCache = out
	return out
}

func (e *env) cidOf(d *mdoc, ver int, field bool, noDelete bool) string {
	if d == nil {
		return missingCid
	}
	dc := e.cids()[d.id]
	if dc == nil {
		hx.Harnessf("no commits known for %s", d)
	}
	l := dc.composite
	if field {
		l = dc.field
	}
	if noDelete && d.deleted && !field && len(l) > 0 {
		// a time-travel read AT a delete commit deadlocks in the versioned fetcher (corekv/memory iterator+Set in
		// DocComposite.deleteWithPrefix), with or without ACP: outside this property, never requested here.
		l = l[:len(l)-1]
	}
	if len(l) == 0 {
		return missingCid
	}
	return l[ver%len(l)]
}

func (e *env) resolve(tpl string, pick func(col, idx int) *mdoc) string {
	return phRe.ReplaceAllStringFunc(tpl, func(m string) string {
		p := phRe.FindStringSubmatch(m)
		n, _ := strconv.Atoi(p[2])
		col := 0
		if p[1] == "B" || p[1] == "b" {
			col = 1
		}
		d := pick(col, n)
		if p[1] == "A" || p[1] == "B" {
			if d == nil {
				return e.missing[col]
			}
			return d.id
		}
		v, _ := strconv.Atoi(p[3])
		return e.cidOf(d, v, false, true)
	})
}

// ---------------------------------------------------------------- checkpoint

func (e *env) checkpoint(i int, op Op) *hx.Failure {
	r := op.R
	if op.RLast && e.lastTo != nil {
		r = *e.lastTo
	}
	if f := e.matrix(fmt.Sprintf("at checkpoint %d", i)); f != nil {
		return f
	}
	tw := e.buildTwin(r)
	defer func() { closeNode(tw.n) }()
	e.st.add("case:checkpoint")
	if e.invisibleCount(r) > 0 {
		e.st.add("case:checkpoint-with-hidden-docs")
	}
	granted, revoked := false, false
	for col := 0; col < 2; col++ {
		for _, d := range e.docs[col] {
			if d.owner >= 0 && d.owner != r && d.canRead(r) {
				granted = true
			}
			if d.wasGranted[r+1] && !d.canRead(r) {
				revoked = true
			}
		}
	}
	if granted {
		e.st.add("case:checkpoint-with-docs-readable-by-grant")
	}
	if revoked {
		e.st.add("case:checkpoint-with-docs-hidden-again-by-revoke")
	}
	for j, rq := range op.Reqs {
		f := e.request(r, rq, &tw)
		if f != nil {
			f.Msg = fmt.Sprintf("request %d as %s: %s", j, who(r), f.Msg)
		}
		if f = e.report(f); f != nil {
			return f
		}
	}
	return nil
}

func (e *env) avoid(sig string) bool {
	on := false
	switch sig {
	case sigLivelock, sigShowDelOrder:
		on = e.c.AvoidLive
	case sigCommits, sigLatest:
		on = e.c.AvoidCommits
	case sigTimeTrav:
		on = e.c.AvoidTT
	case sigSubActive:
		on = e.c.AvoidSub
	case sigDelPanic:
		on = e.c.AvoidDelPanic
	}
	return on && rec.IsKnown(sig)
}

// hiddenMatters labels a read: does the answer change when every hidden document is made public?
func (e *env) hiddenMatters(r int, q string, twinRes hx.Result, label string) {
	fr := exec(e.full, r, q)
	if !same(fr, twinRes) {
		e.st.nontrivial++
		e.st.add("req:hidden-doc-would-show")
		e.st.add("req:hidden-doc-would-show:" + label)
	}
}

// unstable re-executes a read on both nodes; it reports true when some answer is given by both of them, i.e. the
// observed difference is within the engine's own run-to-run variation.
func (e *env) unstable(r int, q string, tw *twin, a, b hx.Result) bool {
	key := func(x hx.Result) string { return show(x) }
	as, bs := map[string]bool{key(a): true}, map[string]bool{key(b): true}
	for i := 0; i < 6; i++ {
		as[key(e.execReal(r, q))] = true
		bs[key(exec(tw.n, r, q))] = true
	}
	for k := range as {
		if bs[k] {
			return true
		}
	}
	return false
}

func (e *env) leakKind(r int, real hx.Result) string {
	s := show(real)
	for col := 0; col < 2; col++ {
		for _, d := range e.docs[col] {
			if !d.canRead(r) && strings.Contains(s, d.id) {
				return "leak"
			}
		}
	}
	return "differs"
}

func (e *env) request(r int, rq Req, twp **twin) *hx.Failure {
	tw := *twp
	switch rq.K {
	case "q":
		q := e.resolve(rq.Q, e.pickAll)
		if (e.avoid(sigLivelock) || e.avoid(sigShowDelOrder)) && e.invisibleCount(r) > 0 {
			q = strings.ReplaceAll(q, "showDeleted: true", "showDeleted: false")
		}
		a, b := e.execReal(r, q), exec(tw.n, r, q)
		for _, l := range queryLabels(q, e.c.RelIdx) {
			e.st.add("req:" + l)
		}
		e.hiddenMatters(r, q, b, "query")
		if !same(a, b) && e.unstable(r, q, tw, a, b) {
			// the engine answers this query differently from one execution to the next on the SAME database (seen: _avg
			// over an _or of conditions on an indexed field): a difference between two databases proves nothing
			e.st.add("req:query-skipped-engine-nondeterministic")
			return nil
		}
		if !same(a, b) && !strings.Contains(q, "order:") && sameUnordered(a, b) {
			e.st.add("req:query-rows-equal-as-multiset(no-order-requested)")
			return nil
		}
		if !same(a, b) && strings.Contains(q, "showDeleted: true") && e.invisibleCount(r) > 0 &&
			(sameUnordered(a, b) || (strings.Contains(q, "limit:") && !strings.Contains(q, "order:"))) {
			// A showDeleted listing merges the live and the deleted documents in an order that follows the
			// scan; with hidden documents present the scan is another one, so documents that tie under the
			// requested order (or all of them, without an order) come in another sequence, and a limit
			// without order cuts another slice. The rows themselves are the same (checked above when no
			// limit cuts them).
			return e.report(hx.Failf(sigShowDelOrder, "%s as %s\n real: %s\n twin: %s", q, who(r), show(a), show(b)))
		}
		if !same(a, b) {
			if trace {
				for _, dq := range []string{`query { Author { _docID k name age } }`, `query { Book { _docID k title rating author_id } }`, os.Getenv("C10_DEBUGQ")} {
					if dq != "" {
						fmt.Fprintf(os.Stderr, "DEBUG %s\n real: %s\n twin: %s\n full: %s\n", dq, show(e.execReal(r, dq)), show(exec(tw.n, r, dq)), show(exec(e.full, r, dq)))
					}
				}
			}
			return hx.Failf("C10/"+e.leakKind(r, a)+"/query", "%s\n real: %s\n twin: %s", q, show(a), show(b))
		}
		return nil

	case "commits", "latest":
		sig := sigCommits
		if rq.K == "latest" {
			sig = sigLatest
		}
		pick := e.pickAll
		doc, ver := rq.Doc, rq.Ver
		if e.avoid(sig) {
			pick = e.pickVisible(r)
			if doc < 0 {
				doc = 0
			}
		}
		args := []string{}
		var d *mdoc
		if doc >= 0 {
			d = pick(rq.Col, doc)
			id := e.missing[rq.Col]
			if d != nil {
				id = d.id
			}
			if ver >= 0 && rq.K == "commits" {
				args = append(args, fmt.Sprintf("cid: %s", gqlStr(e.cidOf(d, ver, false, false))))
			} else {
				args = append(args, fmt.Sprintf("docID: %s", gqlStr(id)))
			}
		}
		byCid := doc >= 0 && ver >= 0 && rq.K == "commits"
		if rq.Field != "" && !byCid {
			// never cid + fieldName: when the block at cid is not of that field, dagScanNode.Next recurses on the same
			// cid without bound and the process dies with "fatal error: stack overflow" (on any node, ACP or not)
			args = append(args, fmt.Sprintf("fieldName: %s", gqlStr(rq.Field)))
		}
		if rq.Depth > 0 && rq.K == "commits" {
			args = append(args, fmt.Sprintf("depth: %d", rq.Depth))
		}
		if rq.Order != "" && rq.K == "commits" {
			args = append(args, fmt.Sprintf("order: {height: %s}", rq.Order))
		}
		a := ""
		if len(args) > 0 {
			a = "(" + strings.Join(args, ", ") + ")"
		}
		key := "commits"
		if rq.K == "latest" {
			key = "latestCommits"
		}
		q := fmt.Sprintf(`query { %s%s { cid docID fieldName height delta links { cid name } } }`, key, a)
		ra, rb := e.execReal(r, q), exec(tw.n, r, q)
		e.st.add("req:" + rq.K)
		e.hiddenMatters(r, q, rb, rq.K)
		if same(ra, rb) {
			return nil
		}
		if e.explainedByCommitLeak(r, key, ra, rb) {
			return hx.Failf(sig, "%s returns commits of documents the requester may not read\n real: %s\n twin: %s", q, show(ra), show(rb))
		}
		return hx.Failf("C10/"+e.leakKind(r, ra)+"/"+rq.K, "%s\n real: %s\n twin: %s", q, show(ra), show(rb))

	case "tt":
		pick := e.pickAll
		if e.avoid(sigTimeTrav) {
			pick = e.pickVisible(r)
		}
		d := pick(rq.Col, rq.Doc)
		cid := e.cidOf(d, rq.Ver, rq.FieldCi, true)
		args := []string{fmt.Sprintf("cid: %s", gqlStr(cid))}
		if rq.WithDoc {
			id := e.missing[rq.Col]
			if d != nil {
				id = d.id
			}
			args = append(args, fmt.Sprintf("docID: %s", gqlStr(id)))
		}
		q := fmt.Sprintf(`query { x: %s(%s) { %s } }`, colName(rq.Col), strings.Join(args, ", "), baseFields(rq.Col))
		ra, rb := e.execReal(r, q), exec(tw.n, r, q)
		e.st.add("req:time-travel")
		e.hiddenMatters(r, q, rb, "time-travel")
		if d != nil {
			// A time-travel READ is not free of effect in this code base: the versioned fetcher re-registers the visited
			// commits as heads of the document in the node's own head store (latestCommits then lists the old commit too,
			// and the next update links to both). The same read ran on the public replica just now (hiddenMatters) and on
			// the twin if it holds the document; logging it as a step of the document's history gives later twins the
			// same heads. Without this the real node and a rebuilt twin differ in commit order and in later cids.
			e.log = append(e.log, logStep{doc: d, q: q, read: true})
			e.cidCache = nil
		}
		if same(ra, rb) {
			return nil
		}
		if d != nil && !d.canRead(r) && len(ra.Rows("x")) == 0 && ra.Panic == "" && strings.Contains(rb.Err(), "could not find "+cid) {
			return hx.Failf(sigTimeTrav, "%s on a commit of a hidden document answers differently from a database that never held it (existence oracle)\n real: %s\n twin: %s", q, show(ra), show(rb))
		}
		return hx.Failf("C10/"+e.leakKind(r, ra)+"/time-travel", "%s\n real: %s\n twin: %s", q, show(ra), show(rb))

	case "get", "exists", "docids":
		d := e.pickAll(rq.Col, rq.Doc)
		id := e.missing[rq.Col]
		if d != nil {
			id = d.id
		}
		a, b := e.apiRead(e.real, r, rq, id), e.apiRead(tw.n, r, rq, id)
		c := e.apiRead(e.full, r, rq, id)
		e.st.add("req:api-" + rq.K)
		if b != c {
			e.st.nontrivial++
			e.st.add("req:hidden-doc-would-show")
			e.st.add("req:hidden-doc-would-show:api")
		}
		if a != b {
			return hx.Failf("C10/differs/api-"+rq.K, "collection %s(%s) as %s:\n real: %s\n twin: %s", rq.K, id, who(r), a, b)
		}
		return nil

	case "mut":
		return e.mutate(r, rq, tw)

	case "sub":
		return e.subscribe(r, rq, tw)

	case "span":
		return e.span(r, rq, twp)
	}
	hx.Harnessf("unknown request kind %q", rq.K)
	return nil
}

func (e *env) apiRead(n *hx.Node, r int, rq Req, id string) string {
	e.guard.n.Store(0)
	c := e.collection(n, rq.Col)
	ctx := withID(n.Ctx, r)
	did, err := client.NewDocIDFromString(id)
	if err != nil {
		hx.Harnessf("docID %s: %v", id, err)
	}
	switch rq.K {
	case "get":
		doc, err := c.Get(ctx, did, rq.WithDoc)
		if err != nil {
			return "err=" + err.Error()
		}
		s, err := doc.String()
		return fmt.Sprintf("doc=%s err=%v", s, err)
	case "exists":
		ok, err := c.Exists(ctx, did)
		return fmt.Sprintf("exists=%v err=%v", ok, err)
	default:
		ch, err := c.GetAllDocIDs(ctx)
		if err != nil {
			return "err=" + err.Error()
		}
		out := []string{}
		for x := range ch {
			if x.Err != nil {
				out = append(out, "err="+x.Err.Error())
			} else {
				out = append(out, x.ID.String())
			}
		}
		sort.Strings(out)
		return strings.Join(out, ",")
	}
}

// mutate: a filtered (or docID-list) update/delete issued by the requester. Targets are the documents matching on the
// public replica that the requester may read; the mutation may only touch targets the requester may update/delete.
func (e *env) mutate(r int, rq Req, tw *twin) *hx.Failure {
	name := colName(rq.Col)
	sel := ""
	if len(rq.Docs) > 0 {
		ids := []string{}
		for _, x := range rq.Docs {
			id := e.missing[rq.Col]
			if d := e.pickAll(rq.Col, x); d != nil {
				id = d.id
			}
			ids = append(ids, gqlStr(id))
		}
		sel = "docID: [" + strings.Join(ids, ", ") + "]"
	} else {
		sel = "filter: {" + e.resolve(rq.Filter, e.pickAll) + "}"
	}
	verb, key := "update_"+name, "update_"+name
	q := fmt.Sprintf(`mutation { %s(%s, input: {%s}) { _docID } }`, verb, sel, rq.Input)
	if rq.Del {
		verb, key = "delete_"+name, "delete_"+name
		q = fmt.Sprintf(`mutation { %s(%s) { _docID } }`, verb, sel)
	}
	// targets: what the selection matches on the twin, i.e. in the world without the hidden documents (a filter through
	// a relation sees a hidden related document as absent); the public replica only tells whether a hidden one would match
	tq := fmt.Sprintf(`query { x: %s(%s) { _docID } }`, name, sel)
	tr := exec(tw.n, r, tq)
	byID := map[string]*mdoc{}
	for _, d := range e.docs[rq.Col] {
		byID[d.id] = d
	}
	hidden := 0
	for _, row := range exec(e.full, -1, tq).Rows("x") {
		id, _ := row["_docID"].(string)
		if d := byID[id]; d != nil && !d.canRead(r) {
			hidden++
		}
	}
	targets, permitted := []*mdoc{}, []*mdoc{}
	for _, row := range tr.Rows("x") {
		id, _ := row["_docID"].(string)
		d := byID[id]
		if d == nil || !d.canRead(r) {
			hx.Harnessf("twin lists %s, which the requester may not read or the model does not know", id)
		}
		targets = append(targets, d)
		if (rq.Del && d.canDelete(r)) || (!rq.Del && d.canUpdate(r)) {
			permitted = append(permitted, d)
		}
	}
	e.st.add("req:mutation")
	if hidden > 0 {
		e.st.nontrivial++
		e.st.add("req:hidden-doc-would-show")
		e.st.add("req:hidden-doc-would-show:mutation")
	}
	ra := e.execReal(r, q)
	what := fmt.Sprintf("%s as %s (readable targets %d, permitted %d, hidden matches %d)", q, who(r), len(targets), len(permitted), hidden)
	// mirror: the twin to apply the per-document steps to (nil when the twin executed the mutation itself)
	var mirror *twin
	apply := func(ds []*mdoc) {
		for _, d := range ds {
			var m string
			if rq.Del {
				m = fmt.Sprintf(`mutation { delete_%s(docID: %s) { _docID } }`, name, gqlStr(d.id))
				d.deleted = true
			} else {
				m = fmt.Sprintf(`mutation { update_%s(docID: %s, input: {%s}) { _docID } }`, name, gqlStr(d.id), rq.Input)
			}
			e.applyPublic(d, m, mirror)
		}
	}
	if !tr.OK() {
		// the selection itself is not answerable: both nodes must say the same, nothing changes
		rb := exec(tw.n, r, q)
		if !same(ra, rb) {
			return hx.Failf("C10/differs/mutation", "%s\n real: %s\n twin: %s", what, show(ra), show(rb))
		}
		return e.matrix("after " + what)
	}
	if len(permitted) == len(targets) {
		e.st.add("req:mutation-all-permitted")
		rb := exec(tw.n, r, q)
		if !same(ra, rb) {
			return hx.Failf("C10/"+e.leakKind(r, ra)+"/mutation", "%s\n real: %s\n twin: %s", what, show(ra), show(rb))
		}
		if ra.OK() {
			apply(targets)
		}
		return e.matrix("after " + what)
	}
	e.st.add("req:mutation-partly-unpermitted")
	if ra.OK() {
		// tolerated reading of the statement: unpermitted targets skipped silently; the matrix decides
		mirror = tw
		got := map[string]bool{}
		for _, row := range ra.Rows(key) {
			id, _ := row["_docID"].(string)
			got[id] = true
		}
		for _, d := range targets {
			if got[d.id] && !((rq.Del && d.canDelete(r)) || (!rq.Del && d.canUpdate(r))) {
				return hx.Failf("C10/write/unauthorised-filtered-"+map[bool]string{true: "delete", false: "update"}[rq.Del]+"-accepted", "%s reports %s as changed: %s", what, d, show(ra))
			}
		}
		apply(permitted)
	}
	return e.matrix("after " + what)
}

// ---------------------------------------------------------------- subscriptions

type subReader struct {
	mu     sync.Mutex
	msgs   []hx.Result
	seen   chan struct{}
	closed chan struct{}
	notify chan struct{}
}

func openSub(n *hx.Node, r int, q string, sentinel string) (*subReader, context.CancelFunc, string) {
	ctx, cancel := context.WithCancel(withID(n.Ctx, r))
	res := n.DB.ExecRequest(ctx, q)
	if len(res.GQL.Errors) > 0 || res.Subscription == nil {
		cancel()
		errs := []string{}
		for _, e := range res.GQL.Errors {
			errs = append(errs, e.Error())
		}
		return nil, func() {}, "errors=" + strings.Join(errs, " | ")
	}
	sr := &subReader{seen: make(chan struct{}), closed: make(chan struct{}), notify: make(chan struct{}, 1)}
	go func() {
		defer close(sr.closed)
		signalled := false
		for m := range res.Subscription {
			out := hx.Result{}
			for _, e := range m.Errors {
				out.Errors = append(out.Errors, e.Error())
			}
			if m.Data != nil {
				if mm, ok := hx.Normalize(m.Data).(map[string]any); ok {
					out.Data = mm
				}
			}
			sr.mu.Lock()
			sr.msgs = append(sr.msgs, out)
			sr.mu.Unlock()
			select {
			case sr.notify <- struct{}{}:
			default:
			}
			if !signalled && sentinel != "" && strings.Contains(hx.Canon(out.Data), sentinel) {
				signalled = true
				close(sr.seen)
			}
		}
	}()
	return sr, cancel, ""
}

func (s *subReader) finish(cancel context.CancelFunc, what string) []hx.Result {
	select {
	case <-s.seen:
	case <-time.After(10 * time.Second):
		cancel()
		s.mu.Lock()
		l := []string{}
		for _, m := range s.msgs {
			l = append(l, show(m))
		}
		s.mu.Unlock()
		hx.Harnessf("%s: the sentinel document was not delivered within 60 s; messages so far: %s", what, strings.Join(l, " ; "))
	}
	cancel()
	select {
	case <-s.closed:
	case <-time.After(60 * time.Second):
		hx.Harnessf("%s: subscription did not end after cancel", what)
	}
	s.mu.Lock()
	defer s.mu.Unlock()
	return s.msgs
}

// waitFor blocks until a message at or after position from carries the marker and returns the position behind it.
func (s *subReader) waitFor(marker string, from int, what string) int {
	deadline := time.After(60 * time.Second)
	for {
		s.mu.Lock()
		for i := from; i < len(s.msgs); i++ {
			if strings.Contains(hx.Canon(s.msgs[i].Data), marker) {
				s.mu.Unlock()
				return i + 1
			}
		}
		l := []string{}
		for _, m := range s.msgs {
			l = append(l, show(m))
		}
		s.mu.Unlock()
		select {
		case <-s.notify:
		case <-s.closed:
			hx.Harnessf("%s: subscription ended before the sentinel %s arrived; messages: %s", what, marker, strings.Join(l, " ; "))
		case <-deadline:
			hx.Harnessf("%s: the sentinel %s was not delivered within 60 s; messages: %s", what, marker, strings.Join(l, " ; "))
		}
	}
}

func (s *subReader) slice(from, to int) []hx.Result {
	s.mu.Lock()
	defer s.mu.Unlock()
	return append([]hx.Result{}, s.msgs[from:to]...)
}

func (s *subReader) stop(cancel context.CancelFunc, what string) {
	cancel()
	select {
	case <-s.closed:
	case <-time.After(60 * time.Second):
		hx.Harnessf("%s: subscription did not end after cancel", what)
	}
}

// span: a subscription of the requester that stays open ACROSS relationship changes. Every step (a write, or a grant /
// revoke of reader on the target document to the requester or to '*') is followed by a public sentinel document, so
// the messages of each step are known. Oracle per step: after a write, the real node's messages equal those of a twin
// that holds exactly what the requester may read NOW (the twin is rebuilt at every relationship change: "granting or
// revoking changes the outcome from the next request on", and a notification is such an outcome); after a grant the
// real node may additionally re-announce the granted document (AddDACActorRelationship publishes its heads) - only if
// the requester may read it now, and only with the content the twin holds.
func (e *env) span(r int, rq Req, twp **twin) *hx.Failure {
	tw := *twp
	name := colName(rq.Col)
	a := ""
	if rq.Filter != "" {
		a = "(filter: {" + rq.Filter + "})"
	}
	q := fmt.Sprintf(`subscription { %s%s { %s } }`, name, a, baseFields(rq.Col))
	// the target: a live private document of the collection that the requester does not own
	var cands []*mdoc
	for _, d := range e.docs[rq.Col] {
		if d.owner >= 0 && d.owner != r && !d.deleted {
			cands = append(cands, d)
		}
	}
	var tgt *mdoc
	if len(cands) > 0 && rq.Doc >= 0 {
		tgt = cands[rq.Doc%len(cands)]
	}
	sa, ca, ea := openSub(e.real, r, q, "")
	sb, cb, eb := openSub(tw.n, r, q, "")
	defer func() { ca(); cb() }()
	if sa == nil || sb == nil {
		if ea != eb {
			return hx.Failf("C10/differs/subscription", "%s: opening answers %q on the real node, %q on the twin", q, ea, eb)
		}
		return nil
	}
	e.st.add("req:subscription-span")
	posA, posB := 0, 0
	delivered, denied := false, false // the target's last write before now reached / did not reach the requester
	history := []string{}
	for si, op := range rq.Steps {
		isRel := false
		var relDoc *mdoc
		switch op.K {
		case "toggle":
			if tgt == nil {
				continue
			}
			to := r
			if r < 0 || op.To == 3 {
				to = 3
			}
			k := "grant"
			rel := "reader"
			// revoke whatever lets the requester read, one relationship at a time; grant when nothing does
			for _, cand := range []struct {
				rel string
				to  int
			}{{"reader", r}, {"updater", r}, {"reader", 3}, {"updater", 3}} {
				if cand.to >= 0 && tgt.rel[cand.rel][cand.to] {
					k, rel, to = "revoke", cand.rel, cand.to
					break
				}
			}
			readBefore := tgt.canRead(r)
			e.forceDoc = tgt
			f := e.write(Op{K: k, Col: rq.Col, By: tgt.owner, ByOwner: false, Rel: rel, To: to}, nil, e.pickAll, false)
			e.forceDoc = nil
			if f != nil {
				return f
			}
			isRel, relDoc = true, tgt
			history = append(history, fmt.Sprintf("%s %s to %d", k, rel, to))
			if readBefore != tgt.canRead(r) {
				e.st.add("span:visibility-changed")
				if readBefore && delivered {
					e.st.add("span:revoke-after-a-delivered-write")
				}
				if !readBefore && denied {
					e.st.add("span:grant-after-a-withheld-write")
				}
			}
			// the world of the requester changed: a new twin, subscribed before anything else happens
			sb.stop(cb, "twin "+q)
			closeNode(tw.n)
			tw = e.buildTwin(r)
			*twp = tw
			sb, cb, eb = openSub(tw.n, r, q, "")
			if sb == nil {
				hx.Harnessf("twin refused the subscription it accepted before: %s", eb)
			}
			posB = 0
		case "update", "create":
			w := op
			if op.Tgt {
				if tgt == nil || op.K != "update" {
					continue
				}
				e.forceDoc = tgt
				w.ByOwner, w.Col = true, rq.Col
			}
			before := len(e.log)
			f := e.write(w, tw, e.pickAll, false)
			e.forceDoc = nil
			if f != nil {
				return f
			}
			if op.Tgt && len(e.log) > before {
				delivered, denied = tgt.canRead(r), !tgt.canRead(r)
				e.st.add("span:target-write")
			}
			history = append(history, fmt.Sprintf("%s tgt=%v", op.K, op.Tgt))
		default:
			continue
		}
		// sentinel
		sentinelK := 100000 + e.nSentinel
		e.nSentinel++
		marker := fmt.Sprintf(`"k":%d,`, sentinelK)
		save := e.nextK
		e.nextK = sentinelK
		v := sentinelValue
		f := e.write(Op{K: "create", Col: rq.Col, By: -1, Via: "gql", I: &v}, tw, e.pickAll, false)
		e.nextK = save
		if f != nil {
			return f
		}
		endA := sa.waitFor(marker, posA, "real node "+q)
		endB := sb.waitFor(marker, posB, "twin "+q)
		ma, mb := sa.slice(posA, endA), sb.slice(posB, endB)
		posA, posB = endA, endB
		la, lb := []string{}, []string{}
		for _, m := range ma {
			la = append(la, show(m))
		}
		for _, m := range mb {
			lb = append(lb, show(m))
		}
		where := fmt.Sprintf("%s, step %d of [%s] (target %v)\n real: %s\n twin: %s", q, si, strings.Join(history, "; "), tgt, strings.Join(la, " ; "), strings.Join(lb, " ; "))
		if isRel {
			// echoes of the granted document, then the sentinel
			if len(ma) == 0 || len(mb) != 1 || la[len(la)-1] != lb[0] {
				return hx.Failf("C10/differs/subscription-span", "after a relationship change the sentinel notifications differ: %s", where)
			}
			if len(ma) > 1 {
				e.st.add("span:grant-echo")
				fa := ""
				if rq.Filter != "" {
					fa = ", filter: {" + rq.Filter + "}"
				}
				cur := exec(tw.n, r, fmt.Sprintf(`query { %s(docID: %s%s) { %s } }`, name, gqlStr(relDoc.id), fa, baseFields(rq.Col)))
				for _, m := range ma[:len(ma)-1] {
					if !relDoc.canRead(r) {
						return hx.Failf("C10/leak/subscription-span", "a relationship change on a document the requester may not read is announced to it: %s", where)
					}
					if show(m) != show(cur) {
						return hx.Failf("C10/differs/subscription-span", "the announcement of the granted document is not its current readable state %s: %s", show(cur), where)
					}
				}
			}
			continue
		}
		if strings.Join(la, "\n") != strings.Join(lb, "\n") {
			kind := "differs"
			for _, m := range ma {
				if e.leakKind(r, m) == "leak" {
					kind = "leak"
				}
			}
			return hx.Failf("C10/"+kind+"/subscription-span", "notifications of a write differ from a database holding exactly what the requester may read now: %s", where)
		}
	}
	sa.stop(ca, "real node "+q)
	sb.stop(cb, "twin "+q)
	return nil
}

func (e *env) subscribe(r int, rq Req, tw *twin) *hx.Failure {
	name := colName(rq.Col)
	a := ""
	if rq.Filter != "" {
		a = "(filter: {" + rq.Filter + "})"
	}
	q := fmt.Sprintf(`subscription { %s%s { %s } }`, name, a, baseFields(rq.Col))
	sentinelK := 100000 + e.nSentinel // unique: never used by another document of this case
	e.nSentinel++
	marker := fmt.Sprintf(`"k":%d,`, sentinelK)
	sa, ca, ea := openSub(e.real, r, q, marker)
	sb, cb, eb := openSub(tw.n, r, q, marker)
	defer ca()
	defer cb()
	if sa == nil || sb == nil {
		if ea != eb {
			return hx.Failf("C10/differs/subscription", "%s: opening answers %q on the real node, %q on the twin", q, ea, eb)
		}
		return nil
	}
	e.st.add("req:subscription")
	avoid := e.avoid(sigSubActive)
	pick := e.pickAll
	if avoid {
		pick = e.pickVisible(r)
	}
	hiddenActivity := 0
	written := map[*mdoc]bool{}
	var wf *hx.Failure
	for _, op := range rq.Burst {
		if op.K != "create" && op.K != "update" {
			continue // see drawBurst: a delete notification deadlocks on any node
		}
		if op.K == "update" {
			// one write per document and burst: the notification is a time-travel read at the written commit, which
			// (see the "tt" request) re-registers that commit as a head - harmless only while it still is the head
			d := pick(op.Col, op.Doc)
			if d == nil || written[d] {
				continue
			}
			written[d] = true
		}
		before := len(e.log)
		if wf = e.write(op, tw, pick, avoid); wf != nil {
			break
		}
		for _, s := range e.log[before:] {
			if !s.doc.canRead(r) {
				hiddenActivity++
			}
		}
	}
	// the sentinel: a public document that passes every generated subscription filter
	save := e.nextK
	e.nextK = sentinelK
	i := sentinelValue
	sop := Op{K: "create", Col: rq.Col, By: -1, Via: "gql", I: &i}
	if wf == nil {
		wf = e.write(sop, tw, pick, false)
	}
	e.nextK = save
	if wf != nil {
		ca()
		cb()
		<-sa.closed
		<-sb.closed
		return wf
	}
	ma := sa.finish(ca, "real node "+q)
	mb := sb.finish(cb, "twin "+q)
	if hiddenActivity > 0 {
		e.st.nontrivial++
		e.st.add("req:hidden-doc-would-show")
		e.st.add("req:hidden-doc-would-show:subscription")
	}
	la, lb := []string{}, []string{}
	for _, m := range ma {
		la = append(la, show(m))
	}
	for _, m := range mb {
		lb = append(lb, show(m))
	}
	if strings.Join(la, "\n") == strings.Join(lb, "\n") {
		return nil
	}
	msg := fmt.Sprintf("%s with %d effective writes on hidden documents\n real: %s\n twin: %s", q, hiddenActivity, strings.Join(la, " ; "), strings.Join(lb, " ; "))
	if hiddenActivity > 0 && explainedByEmptyNotifications(name, ma, mb) {
		return hx.Failf(sigSubActive, "the requester is notified (with an empty result) of writes to documents it may not read: %s", msg)
	}
	kind := "differs"
	for _, m := range ma {
		if e.leakKind(r, m) == "leak" {
			kind = "leak"
		}
	}
	return hx.Failf("C10/"+kind+"/subscription", "%s", msg)
}
