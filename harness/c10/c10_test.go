// Package c10 checks property C10: documents a requester may not read are
// invisible through every query path (non-interference under document ACP),
// and write attempts without permission change nothing.
package c10

import (
	"encoding/json"
	"fmt"
	"strings"
	"testing"

	"github.com/sourcenetwork/corelog"
	"pgregory.net/rapid"

	"github.com/sourcenetwork/defradb/verifharness/hx"
)

func init() {
	// "error" is the quietest level corelog knows (an unknown level means info).
	corelog.SetConfig(corelog.Config{Level: corelog.LevelError, Output: "stderr", Format: "text"})
}

func TestMain(m *testing.M) { hx.Main(m) }

var rec = hx.NewRecorder("C10",
	"a case is a history of creates (public or owned by one of 3 fixed identities), updates, deletes, reader/updater/admin "+
		"grants and revokes (incl. to '*') and write attempts by arbitrary identities on two related permissioned collections "+
		"(Author 1-n Book, index on Author.age, optionally on Book.author), with 1-3 checkpoints at which a requester issues 4-9 "+
		"requests (listings, filters, order/limit, aggregates, groupBy, joins both ways, index-backed filters, docID lookups, "+
		"time travel, commits/latestCommits, subscriptions with a write burst, filtered update/delete, collection API Get/Exists/GetAllDocIDs); "+
		"non-trivial = at least one request whose answer on a database holding ALL documents publicly differs from its answer on the twin "+
		"holding only the requester's readable documents (a hidden document would match), or a write attempt on a document the writer cannot read",
	"signing is off and no counter fields are used, so commit cids of a document do not depend on who wrote it (checked per write against the public replica)",
	"every document has a unique k, so two documents never collide on docID (identical content of a hidden document is an existence oracle by design)",
	"read = owner + reader + updater, update = owner + updater, delete = owner, admin manages reader; '*' grants include requests without identity",
	"explain requests, P2P, signature verification and the HTTP/CLI front ends are not exercised",
)

// Signatures of the findings known on the pinned tree (each has a diagnoser in diagnose.go and a generator switch).
const (
	sigCommits   = "C10/leak/commits-query"
	sigLatest    = "C10/leak/latestCommits"
	sigTimeTrav  = "C10/existence-oracle/time-travel"
	sigSubActive = "C10/activity-oracle/subscription"
	sigLivelock  = "C10/livelock/showDeleted-with-hidden-doc"
	sigDelPanic  = "C10/panic/collection-delete-unfetchable-doc-indexed"
	sigShowDelOrder = "C10/order-oracle/showDeleted-listing"
)

// Op is one step of the history.
type Op struct {
	// K: create update delete grant revoke check; toggle (span steps only); recreate = identity By issues
	// once more the create mutation that created document Doc (same content, hence the same docID)
	K string `json:"k"`

	Col int `json:"col,omitempty"` // 0 Author, 1 Book
	Doc int `json:"doc,omitempty"` // index modulo the documents of Col created so far
	By  int `json:"by"`            // identity 0..2, -1 = no identity
	// ByOwner: issue the op as the owner of the target document (if it has one).
	ByOwner bool   `json:"byOwner,omitempty"`
	Via     string `json:"via,omitempty"` // gql | api

	// create / update payload (nil = leave out; on create a missing value is null)
	S   *string `json:"s,omitempty"`   // Author.name / Book.title
	I   *int    `json:"i,omitempty"`   // Author.age / Book.rating
	Ref *int    `json:"ref,omitempty"` // Book.author → author index (modulo)

	// Tgt (span steps): the step applies to the scenario's target document
	Tgt bool `json:"tgt,omitempty"`

	Rel string `json:"rel,omitempty"` // reader updater admin
	To  int    `json:"to,omitempty"`  // 0..2 identity, 3 = "*"

	// checkpoint
	R int `json:"r,omitempty"` // requester -1..2
	// RLast: the requester is the target of the latest effective grant/revoke, if there was one ('*' = no identity)
	RLast bool  `json:"rLast,omitempty"`
	Reqs  []Req `json:"reqs,omitempty"`
}

// Req is one request issued by the requester of a checkpoint.
type Req struct {
	K string `json:"k"` // q commits latest tt sub span mut get exists docids

	// q: a full GraphQL query with placeholders $A<n> $B<n> (docIDs) and $a<n>.<m> $b<n>.<m> (composite commit cids)
	Q string `json:"q,omitempty"`

	Col     int    `json:"col,omitempty"`
	Doc     int    `json:"doc,omitempty"` // -1 none
	Ver     int    `json:"ver,omitempty"` // commit selector, -1 none
	Field   string `json:"field,omitempty"`
	Depth   int    `json:"depth,omitempty"`
	WithDoc bool   `json:"withDoc,omitempty"`
	FieldCi bool   `json:"fieldCid,omitempty"` // tt: use a field-level commit instead of a composite
	Order   string `json:"order,omitempty"`

	Filter string `json:"filter,omitempty"` // sub / mut: filter template ("" none)
	Docs   []int  `json:"docs,omitempty"`   // mut: docID list instead of a filter
	Input  string `json:"input,omitempty"`  // mut: update input
	Del    bool   `json:"del,omitempty"`
	Burst  []Op   `json:"burst,omitempty"`
	Steps  []Op   `json:"steps,omitempty"` // span: writes and relationship toggles while the subscription stays open
}

// Case is one generated history.
type Case struct {
	// Avoid* turn on the generator switch of one known finding each (effective only while it is listed as known).
	AvoidLive    bool `json:"avoidLive"`    // no showDeleted listing for a requester with hidden documents
	AvoidCommits bool `json:"avoidCommits"` // commits / latestCommits only on documents the requester may read
	AvoidTT      bool `json:"avoidTT"`      // time travel only to commits of readable documents
	AvoidSub     bool `json:"avoidSub"`     // subscription bursts only write readable documents
	// AvoidDelPanic: Collection.Delete on an indexed collection is not called for a document the caller cannot fetch
	AvoidDelPanic bool `json:"avoidDelPanic"`
	RelIdx        bool `json:"relIdx"` // index on Book.author
	Ops           []Op `json:"ops"`
}

// ---------------------------------------------------------------- generator

var names = []string{"a", "b", "c", "ab"}

func optStr(t *rapid.T, label string) *string {
	if rapid.IntRange(0, 5).Draw(t, label+"null") == 0 {
		return nil
	}
	s := rapid.SampledFrom(names).Draw(t, label)
	return &s
}

func optInt(t *rapid.T, label string) *int {
	if rapid.IntRange(0, 6).Draw(t, label+"null") == 0 {
		return nil
	}
	i := rapid.IntRange(1, 5).Draw(t, label)
	return &i
}

func drawWrite(t *rapid.T, kinds []string) Op {
	k := rapid.SampledFrom(kinds).Draw(t, "kind")
	op := Op{K: k,
		Col: rapid.SampledFrom([]int{0, 0, 1}).Draw(t, "col"),
		Doc: rapid.IntRange(0, 7).Draw(t, "doc"),
		By:  rapid.IntRange(-1, 2).Draw(t, "by"),
		Via: rapid.SampledFrom([]string{"gql", "gql", "api"}).Draw(t, "via"),
	}
	switch k {
	case "create":
		// two thirds private
		if rapid.IntRange(0, 2).Draw(t, "public") == 0 {
			op.By = -1
		} else if op.By < 0 {
			op.By = rapid.IntRange(0, 2).Draw(t, "owner")
		}
		op.S, op.I = optStr(t, "s"), optInt(t, "i")
		if op.Col == 1 && rapid.IntRange(0, 4).Draw(t, "hasref") > 0 {
			r := rapid.IntRange(0, 5).Draw(t, "ref")
			op.Ref = &r
		}
	case "update":
		op.ByOwner = rapid.IntRange(0, 9).Draw(t, "byOwner") < 5
		switch rapid.IntRange(0, 3).Draw(t, "what") {
		case 0:
			s := rapid.SampledFrom(names).Draw(t, "s")
			op.S = &s
		case 1:
			i := rapid.IntRange(1, 5).Draw(t, "i")
			op.I = &i
		case 2:
			s := rapid.SampledFrom(names).Draw(t, "s")
			i := rapid.IntRange(1, 5).Draw(t, "i")
			op.S, op.I = &s, &i
		default:
			if op.Col == 1 {
				r := rapid.IntRange(0, 5).Draw(t, "ref")
				op.Ref = &r
			} else {
				i := rapid.IntRange(1, 5).Draw(t, "i")
				op.I = &i
			}
		}
	case "delete":
		op.ByOwner = rapid.IntRange(0, 9).Draw(t, "byOwner") < 5
	case "grant", "revoke":
		op.ByOwner = rapid.IntRange(0, 9).Draw(t, "byOwner") < 8
		if op.By < 0 {
			op.By = rapid.IntRange(0, 2).Draw(t, "by2")
		}
		op.Rel = rapid.SampledFrom([]string{"reader", "reader", "reader", "updater", "admin"}).Draw(t, "rel")
		op.To = rapid.IntRange(0, 3).Draw(t, "to")
		op.Via = ""
	}
	return op
}

var cmpOps = []string{"_eq", "_ne", "_gt", "_ge", "_lt", "_le"}

func intLeaf(t *rapid.T, field string) string {
	switch rapid.IntRange(0, 7).Draw(t, "ik") {
	case 0:
		return fmt.Sprintf("%s: {_eq: null}", field)
	case 1:
		// never a repeated element: `_in: [x, x]` on an indexed field yields each match twice and makes
		// _avg over an _or of such filters nondeterministic (2, 4 or 8 for one document of age 4) on any node
		v1 := rapid.IntRange(1, 5).Draw(t, "v1")
		v2 := rapid.IntRange(1, 4).Draw(t, "v2")
		if v2 >= v1 {
			v2++
		}
		return fmt.Sprintf("%s: {_in: [%d, %d]}", field, v1, v2)
	case 2:
		return fmt.Sprintf("%s: {_nin: [%d]}", field, rapid.IntRange(1, 5).Draw(t, "v1"))
	default:
		return fmt.Sprintf("%s: {%s: %d}", field, rapid.SampledFrom(cmpOps).Draw(t, "op"), rapid.IntRange(1, 5).Draw(t, "v"))
	}
}

func strLeaf(t *rapid.T, field string) string {
	switch rapid.IntRange(0, 4).Draw(t, "sk") {
	case 0:
		return fmt.Sprintf(`%s: {_like: "%s%%"}`, field, rapid.SampledFrom([]string{"a", "b"}).Draw(t, "p"))
	case 1:
		i1 := rapid.IntRange(0, len(names)-1).Draw(t, "v1")
		i2 := rapid.IntRange(0, len(names)-2).Draw(t, "v2")
		if i2 >= i1 {
			i2++
		}
		return fmt.Sprintf(`%s: {_in: ["%s", "%s"]}`, field, names[i1], names[i2])
	case 2:
		return fmt.Sprintf(`%s: {_ne: "%s"}`, field, rapid.SampledFrom(names).Draw(t, "v"))
	default:
		return fmt.Sprintf(`%s: {_eq: "%s"}`, field, rapid.SampledFrom(names).Draw(t, "v"))
	}
}

func docLetter(col int) string {
	if col == 0 {
		return "A"
	}
	return "B"
}

// leaf draws one filter condition on a collection's own fields.
func ownLeaf(t *rapid.T, col int) string {
	iF, sF := "age", "name"
	if col == 1 {
		iF, sF = "rating", "title"
	}
	switch rapid.IntRange(0, 9).Draw(t, "leaf") {
	case 0, 1, 2, 3:
		return intLeaf(t, iF)
	case 4, 5:
		return strLeaf(t, sF)
	case 6:
		return fmt.Sprintf("k: {%s: %d}", rapid.SampledFrom([]string{"_ge", "_le", "_ne"}).Draw(t, "kop"), rapid.IntRange(0, 8).Draw(t, "kv"))
	case 7:
		return fmt.Sprintf(`_docID: {_eq: "$%s%d"}`, docLetter(col), rapid.IntRange(0, 7).Draw(t, "d"))
	case 8:
		d1 := rapid.IntRange(0, 7).Draw(t, "d1")
		return fmt.Sprintf(`_docID: {_in: ["$%s%d", "$%s%d"]}`, docLetter(col), d1, docLetter(col), d1+1+rapid.IntRange(0, 5).Draw(t, "d2"))
	default:
		if col == 1 {
			return fmt.Sprintf(`author_id: {_eq: "$A%d"}`, rapid.IntRange(0, 5).Draw(t, "d"))
		}
		return intLeaf(t, iF)
	}
}

func drawFilter(t *rapid.T, col, depth int) string {
	k := rapid.IntRange(0, 11).Draw(t, "fk")
	if depth <= 0 && k >= 9 {
		k = 0
	}
	switch k {
	case 7, 8:
		// through the relation
		if col == 0 {
			return "books: {" + ownLeaf(t, 1) + "}"
		}
		return "author: {" + ownLeaf(t, 0) + "}"
	case 9:
		return "_and: [{" + drawFilter(t, col, depth-1) + "}, {" + drawFilter(t, col, depth-1) + "}]"
	case 10:
		return "_or: [{" + drawFilter(t, col, depth-1) + "}, {" + drawFilter(t, col, depth-1) + "}]"
	case 11:
		return "_not: {" + drawFilter(t, col, depth-1) + "}"
	default:
		return ownLeaf(t, col)
	}
}

func colName(col int) string {
	if col == 0 {
		return "Author"
	}
	return "Book"
}

func baseFields(col int) string {
	if col == 0 {
		return "_docID k name age"
	}
	return "_docID k title rating author_id"
}

func drawOrder(t *rapid.T, col int) string {
	f := [][]string{{"age", "name", "k"}, {"rating", "title", "k"}}[col]
	dir := rapid.SampledFrom([]string{"ASC", "DESC"}).Draw(t, "dir")
	if rapid.IntRange(0, 5).Draw(t, "relorder") == 0 && col == 1 {
		return fmt.Sprintf("order: {author: {age: %s}}", dir)
	}
	return fmt.Sprintf("order: {%s: %s}", rapid.SampledFrom(f).Draw(t, "of"), dir)
}

// drawSelect draws one top-level selection (without the enclosing "query { }").
func drawSelect(t *rapid.T, alias string) string {
	col := rapid.SampledFrom([]int{0, 0, 1}).Draw(t, "qcol")
	shape := rapid.IntRange(0, 11).Draw(t, "shape")
	args := []string{}
	hasFilter := rapid.IntRange(0, 9).Draw(t, "hasFilter") < 6
	if hasFilter {
		args = append(args, "filter: {"+drawFilter(t, col, 2)+"}")
	}
	switch {
	case shape <= 1:
		// top-level aggregate
		fld := []string{"age", "rating"}[col]
		inner := []string{}
		if hasFilter {
			inner = append(inner, args[0])
		}
		fn := rapid.SampledFrom([]string{"_count", "_count", "_sum", "_avg", "_min", "_max"}).Draw(t, "agg")
		if fn != "_count" {
			inner = append([]string{"field: " + fld}, inner...)
		}
		if rapid.IntRange(0, 5).Draw(t, "agglimit") == 0 {
			inner = append(inner, fmt.Sprintf("limit: %d", rapid.IntRange(1, 3).Draw(t, "al")))
			if fn != "_count" {
				inner = append(inner, fmt.Sprintf("order: %s", rapid.SampledFrom([]string{"ASC", "DESC"}).Draw(t, "ao")))
			}
		}
		return fmt.Sprintf("%s: %s(%s: {%s})", alias, fn, colName(col), strings.Join(inner, ", "))
	case shape == 2:
		// groupBy
		g := [][]string{{"age", "name"}, {"rating", "title", "author_id"}}[col]
		gf := rapid.SampledFrom(g).Draw(t, "gf")
		args = append(args, "groupBy: ["+gf+"]")
		sub := "k"
		if col == 0 {
			sub = "k name age"
		}
		extra := ""
		if rapid.Bool().Draw(t, "gagg") {
			extra = fmt.Sprintf(" s: _sum(_group: {field: %s})", []string{"age", "rating"}[col])
		}
		return fmt.Sprintf("%s: %s(%s) { %s n: _count(_group: {})%s _group { %s } }", alias, colName(col), strings.Join(args, ", "), gf, extra, sub)
	}
	// listing
	if rapid.IntRange(0, 9).Draw(t, "hasDocID") < 2 {
		if rapid.Bool().Draw(t, "multi") {
			args = append(args, fmt.Sprintf(`docID: ["$%s%d", "$%s%d"]`, docLetter(col), rapid.IntRange(0, 7).Draw(t, "d1"), docLetter(col), rapid.IntRange(0, 7).Draw(t, "d2")))
		} else {
			args = append(args, fmt.Sprintf(`docID: "$%s%d"`, docLetter(col), rapid.IntRange(0, 7).Draw(t, "d")))
		}
	}
	if rapid.IntRange(0, 9).Draw(t, "hasOrder") < 4 {
		args = append(args, drawOrder(t, col))
	}
	if rapid.IntRange(0, 9).Draw(t, "hasLimit") < 3 {
		args = append(args, fmt.Sprintf("limit: %d", rapid.IntRange(1, 3).Draw(t, "lim")))
		if rapid.Bool().Draw(t, "hasOffset") {
			args = append(args, fmt.Sprintf("offset: %d", rapid.IntRange(1, 2).Draw(t, "off")))
		}
	}
	sel := baseFields(col)
	if rapid.IntRange(0, 9).Draw(t, "showDeleted") < 2 {
		args = append(args, "showDeleted: true")
		sel += " _deleted"
	}
	switch rapid.IntRange(0, 9).Draw(t, "extra") {
	case 0, 1, 2:
		// join
		if col == 0 {
			bargs := ""
			switch rapid.IntRange(0, 3).Draw(t, "bargs") {
			case 0:
				bargs = "(filter: {" + ownLeaf(t, 1) + "})"
			case 1:
				bargs = fmt.Sprintf("(limit: %d)", rapid.IntRange(1, 2).Draw(t, "bl"))
			case 2:
				bargs = "(order: {rating: DESC})"
			}
			sel += " books" + bargs + " { k title rating }"
		} else {
			sel += " author { k name age }"
		}
	case 3, 4:
		// aggregate over the relation
		if col == 0 {
			switch rapid.IntRange(0, 3).Draw(t, "ragg") {
			case 0:
				sel += " n: _count(books: {})"
			case 1:
				sel += " n: _count(books: {filter: {" + ownLeaf(t, 1) + "}})"
			case 2:
				sel += " s: _sum(books: {field: rating})"
			default:
				sel += " m: _max(books: {field: rating}) v: _avg(books: {field: rating})"
			}
		} else {
			sel += " author { k n: _count(books: {}) }"
		}
	case 5:
		if col == 1 {
			// author_id next to _version panics in the planner on any node (multiScanNode.Source on a nil node)
			sel = strings.Replace(sel, " author_id", "", 1)
		}
		sel += " _version { cid docID height }"
	case 6:
		if col == 1 {
			sel += " author { name books { k } }"
		} else {
			sel += " books { k author { k } }"
		}
	}
	a := ""
	if len(args) > 0 {
		a = "(" + strings.Join(args, ", ") + ")"
	}
	return fmt.Sprintf("%s: %s%s { %s }", alias, colName(col), a, sel)
}

func drawBurst(t *rapid.T) []Op {
	n := rapid.IntRange(1, 4).Draw(t, "nburst")
	out := make([]Op, 0, n)
	for i := 0; i < n; i++ {
		// no deletes while a subscription is open: the notification is a time-travel read at the delete commit,
		// which deadlocks inside the versioned fetcher on any node (not an access-control matter)
		op := drawWrite(t, []string{"create", "update", "update", "update"})
		if op.K != "create" {
			// bursts are about activity on existing documents: mostly authorised writers
			op.ByOwner = rapid.IntRange(0, 9).Draw(t, "burstOwner") < 8
		}
		out = append(out, op)
	}
	return out
}

func drawReq(t *rapid.T) Req {
	k := rapid.IntRange(0, 99).Draw(t, "reqkind")
	switch {
	case k < 52:
		q := "query { " + drawSelect(t, "x")
		if rapid.IntRange(0, 5).Draw(t, "second") == 0 {
			q += " " + drawSelect(t, "y")
		}
		return Req{K: "q", Q: q + " }"}
	case k < 62:
		r := Req{K: "commits", Col: rapid.IntRange(0, 1).Draw(t, "col"), Doc: -1, Ver: -1}
		switch rapid.IntRange(0, 5).Draw(t, "cshape") {
		case 0, 1:
			r.Doc = rapid.IntRange(0, 7).Draw(t, "doc")
		case 2:
			r.Doc = rapid.IntRange(0, 7).Draw(t, "doc")
			r.Ver = rapid.IntRange(0, 4).Draw(t, "ver")
		}
		if rapid.IntRange(0, 3).Draw(t, "hasField") == 0 {
			r.Field = rapid.SampledFrom([]string{"_C", "age", "name", "rating", "title"}).Draw(t, "field")
		}
		if r.Doc >= 0 && rapid.IntRange(0, 3).Draw(t, "hasDepth") == 0 {
			r.Depth = rapid.IntRange(1, 3).Draw(t, "depth")
		}
		if rapid.IntRange(0, 3).Draw(t, "hasOrder") == 0 {
			r.Order = rapid.SampledFrom([]string{"ASC", "DESC"}).Draw(t, "corder")
		}
		return r
	case k < 68:
		r := Req{K: "latest", Col: rapid.IntRange(0, 1).Draw(t, "col"), Doc: rapid.IntRange(0, 7).Draw(t, "doc"), Ver: -1}
		if rapid.IntRange(0, 3).Draw(t, "hasField") == 0 {
			r.Field = rapid.SampledFrom([]string{"_C", "age", "name", "rating", "title"}).Draw(t, "field")
		}
		return r
	case k < 78:
		return Req{K: "tt", Col: rapid.IntRange(0, 1).Draw(t, "col"), Doc: rapid.IntRange(0, 7).Draw(t, "doc"),
			Ver: rapid.IntRange(0, 4).Draw(t, "ver"), WithDoc: rapid.Bool().Draw(t, "withDoc"),
			FieldCi: rapid.IntRange(0, 5).Draw(t, "fieldCid") == 0}
	case k < 83:
		r := Req{K: "sub", Col: rapid.SampledFrom([]int{0, 0, 1}).Draw(t, "col"), Doc: -1, Ver: -1}
		if rapid.IntRange(0, 2).Draw(t, "subFilter") == 0 {
			// the sentinel (k >= 100000, age/rating 1000) must pass the filter. Not on Author.age: a subscription filter
			// on an indexed field never matches on any node (the versioned fetcher's scratch store has no index entries).
			f := []string{"k", "rating"}[r.Col]
			r.Filter = fmt.Sprintf("%s: {%s: %d}", f, rapid.SampledFrom([]string{"_ge", "_gt", "_ne"}).Draw(t, "sop"), rapid.IntRange(1, 4).Draw(t, "sv"))
		}
		r.Burst = drawBurst(t)
		return r
	case k < 89:
		// a subscription that stays open across relationship changes on one target document
		r := Req{K: "span", Col: rapid.SampledFrom([]int{0, 0, 1}).Draw(t, "col"), Doc: rapid.IntRange(0, 5).Draw(t, "doc"), Ver: -1}
		if rapid.IntRange(0, 3).Draw(t, "subFilter") == 0 {
			f := []string{"k", "rating"}[r.Col]
			r.Filter = fmt.Sprintf("%s: {%s: %d}", f, rapid.SampledFrom([]string{"_ge", "_gt", "_ne"}).Draw(t, "sop"), rapid.IntRange(1, 4).Draw(t, "sv"))
		}
		n := rapid.IntRange(3, 6).Draw(t, "nsteps")
		for i := 0; i < n; i++ {
			switch w := rapid.IntRange(0, 19).Draw(t, "step"); {
			case w < 9:
				op := drawWrite(t, []string{"update"})
				op.Tgt = true
				r.Steps = append(r.Steps, op)
			case w < 16:
				// grant reader to the requester (or to '*'), or revoke what lets it read: decided when it runs
				to := 0
				if rapid.IntRange(0, 3).Draw(t, "star") == 0 {
					to = 3
				}
				r.Steps = append(r.Steps, Op{K: "toggle", Tgt: true, To: to})
			default:
				r.Steps = append(r.Steps, drawWrite(t, []string{"create", "update"}))
			}
		}
		return r
	case k < 95:
		r := Req{K: "mut", Col: rapid.SampledFrom([]int{0, 0, 1}).Draw(t, "col"), Doc: -1, Ver: -1, Del: rapid.IntRange(0, 3).Draw(t, "del") == 0}
		if rapid.IntRange(0, 3).Draw(t, "byIDs") == 0 {
			n := rapid.IntRange(1, 3).Draw(t, "nids")
			for i := 0; i < n; i++ {
				r.Docs = append(r.Docs, rapid.IntRange(0, 7).Draw(t, "mdoc"))
			}
		} else {
			r.Filter = drawFilter(t, r.Col, 1)
		}
		if !r.Del {
			if r.Col == 0 {
				r.Input = rapid.SampledFrom([]string{`name: "z"`, `age: 9`, `name: "a", age: 3`, `age: null`}).Draw(t, "input")
			} else {
				r.Input = rapid.SampledFrom([]string{`title: "z"`, `rating: 9`, `rating: null`}).Draw(t, "input")
			}
		}
		return r
	default:
		return Req{K: rapid.SampledFrom([]string{"get", "exists", "docids"}).Draw(t, "api"),
			Col: rapid.IntRange(0, 1).Draw(t, "col"), Doc: rapid.IntRange(0, 7).Draw(t, "doc"), Ver: -1,
			WithDoc: rapid.Bool().Draw(t, "showDeleted")}
	}
}

func drawCheckpoint(t *rapid.T) Op {
	op := Op{K: "check", R: rapid.IntRange(-1, 2).Draw(t, "r")}
	n := rapid.IntRange(4, 8).Draw(t, "nreq")
	for i := 0; i < n; i++ {
		op.Reqs = append(op.Reqs, drawReq(t))
	}
	return op
}

func drawCase(t *rapid.T) Case {
	c := Case{
		// the livelock ends a case at the first showDeleted listing (a fifth of all listings): mostly avoided
		AvoidLive:     rapid.IntRange(0, 9).Draw(t, "avoidLive") < 8,
		AvoidCommits:  rapid.Bool().Draw(t, "avoidCommits"),
		AvoidTT:       rapid.Bool().Draw(t, "avoidTT"),
		AvoidSub:      rapid.Bool().Draw(t, "avoidSub"),
		AvoidDelPanic: rapid.IntRange(0, 3).Draw(t, "avoidDelPanic") > 0,
		RelIdx:        rapid.Bool().Draw(t, "relIdx"),
	}
	// a few documents first, authors before books so that books can point at them
	nInit := rapid.IntRange(2, 6).Draw(t, "ninit")
	for i := 0; i < nInit; i++ {
		op := drawWrite(t, []string{"create"})
		if i < 2 {
			op.Col = i % 2
		}
		c.Ops = append(c.Ops, op)
	}
	nCheck := rapid.SampledFrom([]int{1, 1, 2, 2, 3}).Draw(t, "ncheck")
	for cp := 0; cp < nCheck; cp++ {
		n := rapid.IntRange(1, 7).Draw(t, "nops")
		for i := 0; i < n; i++ {
			op := drawWrite(t, []string{"create", "create", "update", "update", "update", "delete", "grant", "grant", "grant", "revoke", "revoke", "recreate"})
			c.Ops = append(c.Ops, op)
		}
		cpt := drawCheckpoint(t)
		// half of the time the requester is the target of the latest effective grant/revoke: its view just changed
		cpt.RLast = rapid.Bool().Draw(t, "requesterIsGrantee")
		c.Ops = append(c.Ops, cpt)
	}
	return c
}

// ---------------------------------------------------------------- test entry points

func evalCase(t hx.TB, c Case) {
	var st *stats
	f := hx.Guard("C10", func() *hx.Failure {
		var f *hx.Failure
		f, st = run(c)
		return f
	})
	if st == nil {
		st = &stats{}
	}
	labels := st.labelList()
	for name, on := range map[string]bool{"livelock": c.AvoidLive, "commits": c.AvoidCommits, "time-travel": c.AvoidTT, "subscription": c.AvoidSub, "delete-panic": c.AvoidDelPanic} {
		if on {
			labels = append(labels, "case:switch-on:"+name)
		} else {
			labels = append(labels, "case:switch-off:"+name)
		}
	}
	rec.Eval(c, st.nontrivial > 0, labels...)
	rec.Check(t, c, f)
}

// asBranchable recognises a saved case of the @branchable phase.
func asBranchable(raw []byte) (BCase, bool) {
	var bc BCase
	if err := json.Unmarshal(raw, &bc); err != nil || !bc.Branchable {
		return BCase{}, false
	}
	return bc, true
}

func TestC10(t *testing.T) {
	rapid.Check(t, func(t *rapid.T) {
		evalCase(t, drawCase(t))
	})
}

func TestReplay(t *testing.T) {
	raw := hx.ReplayCase(t)
	rec.SetReplaying()
	if bc, ok := asBranchable(raw); ok {
		f := hx.Guard("C10", func() *hx.Failure { f, _ := runBranchable(bc); return f })
		if f != nil {
			t.Logf("replay verdict: %s: %s", f.Sig, f.Msg)
		}
		rec.Check(t, bc, f)
		return
	}
	var c Case
	if err := json.Unmarshal(raw, &c); err != nil {
		t.Fatalf("replay case: %v", err)
	}
	f := hx.Guard("C10", func() *hx.Failure { f, _ := run(c); return f })
	if f != nil {
		t.Logf("replay verdict: %s: %s", f.Sig, f.Msg)
	}
	rec.Check(t, c, f)
}

func TestRegress(t *testing.T) {
	hx.Regress(t, "testdata/regress", func(raw []byte) *hx.Failure {
		if bc, ok := asBranchable(raw); ok {
			return hx.Guard("C10", func() *hx.Failure { f, _ := runBranchable(bc); return f })
		}
		var c Case
		if err := json.Unmarshal(raw, &c); err != nil {
			return hx.Failf("C10/regress-file", "%v", err)
		}
		return hx.Guard("C10", func() *hx.Failure { f, _ := run(c); return f })
	}, rec)
}
