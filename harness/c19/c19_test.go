package c19

import (
	"encoding/json"
	"fmt"
	"sort"
	"strings"
	"testing"

	"pgregory.net/rapid"

	"github.com/sourcenetwork/defradb/verifharness/hx"
)

func TestMain(m *testing.M) { hx.Main(m) }

var rec = hx.NewRecorder("C19",
	"a case is 1-2 collections with 2-4 initial fields (kinds drawn, counters and @default included) and a history of 4-24 (thorough: 4-40) operations: "+
		"create/update/delete through GraphQL under whatever version is active, PatchSchema add-field patches (field drawn from a pool of named kinds, "+
		"setAsDefaultVersion true/false, so chains, branches, re-applied patches and rejected duplicates all occur), SetActiveSchemaVersion to any known version, "+
		"and in 40% of the cases a second node that applies its own patches/switches and exchanges document heads in both directions; "+
		"non-trivial = a write under a non-initial version followed by a switch to a version that is not that version or a descendant, "+
		"or a cross-version delivery carrying a field unknown to the receiver's active version; distinct = distinct case JSON",
	"only additive single-field patches without lens migrations are in scope; a field name always has the same kind on every branch",
	"a field delivered while the receiver's active version does not know it is ignored by the receiver (merge.go initCRDTForType): that (node, document, field) is excluded from value comparison from then on",
	"on a node that does not know the version a received commit was written under, the commits listing of that document is not compared",
	"two-node exchanges are complete and bidirectional per document and never write explicit null, so the merge-target and LWW-null-tie defects of C01/C02 are not triggered",
	"after a delete concurrent with an update on the other node only _docID and _deleted are compared for that document",
)

const (
	sigRootSwitch = "C19/switch/root-target-leaves-previous-active"
	sigRepatch    = "C19/patch/reapplied-patch-duplicates-collection-fields"
)

// Field is one field of a type: name, kind code and whether it declares a default.
type Field struct {
	N string `json:"n"`
	K string `json:"k"` // Int String Float Boolean DateTime Blob JSON [Int] [String!] pn pc pf
	D bool   `json:"d,omitempty"`
}

// Write assigns a value (seed into the kind's pool, <0 = null) to the S-th writable field of the active version.
type Write struct {
	S int `json:"s"`
	V int `json:"v"`
}

// Op is one step of the history.
type Op struct {
	K   string  `json:"k"`             // create update delete patch switch sync
	N   int     `json:"n,omitempty"`   // node
	C   int     `json:"c,omitempty"`   // collection
	D   int     `json:"d,omitempty"`   // document index (modulo what the node has)
	W   []Write `json:"w,omitempty"`   // create/update
	F   int     `json:"f,omitempty"`   // patch: index into the patch-field pool
	Def bool    `json:"def,omitempty"` // patch: setAsDefaultVersion; switch: through PatchCollection
	V   int     `json:"v,omitempty"`   // switch: version index (modulo known versions)
	All bool    `json:"all,omitempty"` // sync: every document of the collection
}

// Case is the replayable input.
type Case struct {
	Cols  [][]Field `json:"cols"` // initial fields per collection ("k: Int" is always added)
	Two   bool      `json:"two,omitempty"`
	Avoid bool      `json:"avoid,omitempty"` // avoid the triggers of listed known findings by construction
	Ops   []Op      `json:"ops"`
}

var colNames = []string{"Users", "Aux"}

// patchPool: fields a patch may add. A name always has the same kind.
var patchPool = []Field{
	{N: "p0", K: "String"}, {N: "p1", K: "Int"}, {N: "p2", K: "pn"}, {N: "p3", K: "[Int]"}, {N: "p4", K: "JSON"},
	{N: "p5", K: "Float"}, {N: "p6", K: "Boolean"}, {N: "p7", K: "DateTime"}, {N: "p8", K: "pc"}, {N: "p9", K: "Blob"},
	{N: "p10", K: "[String!]"}, {N: "p11", K: "pf"},
}

var initKinds = []string{"String", "Int", "Float", "Boolean", "DateTime", "Blob", "JSON", "[Int]", "[String!]", "pn", "pc", "pf", "String", "Int", "pn"}

func drawCase(t *rapid.T) Case {
	c := Case{}
	ncols := 1
	if rapid.IntRange(0, 9).Draw(t, "twocols") < 3 {
		ncols = 2
	}
	for ci := 0; ci < ncols; ci++ {
		n := rapid.IntRange(1, 3).Draw(t, "nfields")
		var fs []Field
		for i := 0; i < n; i++ {
			k := rapid.SampledFrom(initKinds).Draw(t, "kind")
			f := Field{N: fmt.Sprintf("f%d", i), K: k}
			if (k == "Int" || k == "String") && rapid.IntRange(0, 4).Draw(t, "default") == 0 {
				f.D = true
			}
			fs = append(fs, f)
		}
		c.Cols = append(c.Cols, fs)
	}
	c.Two = rapid.IntRange(0, 9).Draw(t, "two") < 4
	c.Avoid = rapid.Bool().Draw(t, "avoid")
	maxOps := 24
	if hx.Thorough() {
		maxOps = 40
	}
	nops := rapid.IntRange(4, maxOps).Draw(t, "nops")
	early := []string{"create", "create", "patch", "patch", "patch", "update", "switch"}
	late := []string{"create", "update", "update", "update", "update", "delete", "patch", "patch", "switch", "switch", "switch", "switch"}
	if c.Two {
		early = append(early, "sync")
		late = append(late, "sync", "sync", "sync")
	}
	for i := 0; i < nops; i++ {
		pool := late
		if i < nops/3 {
			pool = early
		}
		o := Op{K: rapid.SampledFrom(pool).Draw(t, "op")}
		if i == 0 {
			o.K = "create"
		}
		if c.Two {
			o.N = rapid.IntRange(0, 1).Draw(t, "node")
		}
		if ncols > 1 {
			o.C = rapid.IntRange(0, 1).Draw(t, "col")
		}
		switch o.K {
		case "create", "update":
			nw := rapid.IntRange(1, 3).Draw(t, "nw")
			if o.K == "create" {
				nw = rapid.IntRange(0, 4).Draw(t, "nw")
			}
			for j := 0; j < nw; j++ {
				w := Write{S: rapid.IntRange(0, 7).Draw(t, "slot"), V: rapid.IntRange(0, 7).Draw(t, "seed")}
				if rapid.IntRange(0, 9).Draw(t, "recent") < 4 {
					w.S = -1 - rapid.IntRange(0, 1).Draw(t, "back") // the most recently added fields of the active version
				}
				if rapid.IntRange(0, 9).Draw(t, "null") == 0 {
					w.V = -1
				}
				o.W = append(o.W, w)
			}
			o.D = rapid.IntRange(0, 7).Draw(t, "doc")
		case "delete":
			o.D = rapid.IntRange(0, 7).Draw(t, "doc")
		case "patch":
			o.F = rapid.IntRange(0, len(patchPool)-1).Draw(t, "field")
			if rapid.IntRange(0, 2).Draw(t, "smallpool") > 0 {
				o.F %= 4 // a small pool so that re-applied and duplicate patches occur
			}
			o.Def = rapid.IntRange(0, 9).Draw(t, "setdefault") < 6
		case "switch":
			o.V = rapid.IntRange(0, 7).Draw(t, "version")
			// Def: the switch is made with PatchCollection (IsActive of the previous version false, of the
			// target true) instead of SetActiveSchemaVersion
			o.Def = rapid.IntRange(0, 2).Draw(t, "viaPatchCollection") == 0
		case "sync":
			o.D = rapid.IntRange(0, 7).Draw(t, "doc")
			o.All = rapid.IntRange(0, 2).Draw(t, "all") > 0
		}
		c.Ops = append(c.Ops, o)
	}
	if c.Two && rapid.IntRange(0, 2).Draw(t, "lateSwitchTail") == 0 {
		// a structured ending: both nodes exchange everything (so the receiver has merged commits under
		// its current version), a field is added - as default version on the sender only -, the receiver
		// then switches to the new version (mostly through PatchCollection), the sender writes the new
		// field and everything is exchanged again: the receiver must take the value of the field it now knows
		r := rapid.IntRange(0, 1).Draw(t, "tailReceiver")
		col := 0
		if ncols > 1 {
			col = rapid.IntRange(0, 1).Draw(t, "tailCol")
		}
		f := rapid.IntRange(0, len(patchPool)-1).Draw(t, "tailField")
		c.Ops = append(c.Ops,
			Op{K: "sync", N: r, C: col, All: true},
			Op{K: "patch", N: r, C: col, F: f, Def: false},
			Op{K: "patch", N: 1 - r, C: col, F: f, Def: true},
			Op{K: "switch", N: r, C: col, V: -1, Def: rapid.IntRange(0, 3).Draw(t, "tailViaPatchCollection") > 0},
			Op{K: "update", N: 1 - r, C: col, D: rapid.IntRange(0, 7).Draw(t, "tailDoc"), W: []Write{{S: -1, V: rapid.IntRange(0, 7).Draw(t, "tailSeed")}}},
			Op{K: "sync", N: r, C: col, All: true},
		)
	} else if c.Two && rapid.IntRange(0, 2).Draw(t, "switchBackTail") == 0 {
		// another structured ending: both nodes add a field and make it the default; the writer writes it, switches
		// back to an older version and writes again; only then everything is exchanged: the receiver merges, in ONE
		// merge, a head written under the older version whose ancestor carries the field of the newer one
		r := rapid.IntRange(0, 1).Draw(t, "tailReceiver")
		col := 0
		if ncols > 1 {
			col = rapid.IntRange(0, 1).Draw(t, "tailCol")
		}
		f := rapid.IntRange(0, len(patchPool)-1).Draw(t, "tailField")
		d := rapid.IntRange(0, 7).Draw(t, "tailDoc")
		c.Ops = append(c.Ops,
			Op{K: "sync", N: r, C: col, All: true},
			Op{K: "patch", N: r, C: col, F: f, Def: true},
			Op{K: "patch", N: 1 - r, C: col, F: f, Def: true},
			Op{K: "update", N: 1 - r, C: col, D: d, W: []Write{{S: -1, V: rapid.IntRange(0, 7).Draw(t, "tailSeed")}}},
			Op{K: "switch", N: 1 - r, C: col, V: -2 - rapid.IntRange(0, 1).Draw(t, "tailBack")},
			Op{K: "update", N: 1 - r, C: col, D: d, W: []Write{{S: rapid.IntRange(0, 2).Draw(t, "tailSlot"), V: rapid.IntRange(0, 7).Draw(t, "tailSeed2")}}},
			Op{K: "sync", N: r, C: col, All: true},
		)
	}
	return c
}

func labelsOf(in *Info) []string {
	var ls []string
	for k, v := range in.Flags {
		if v {
			ls = append(ls, k)
		}
	}
	sort.Strings(ls)
	return ls
}

func TestC19(t *testing.T) {
	rapid.Check(t, func(t *rapid.T) {
		c := drawCase(t)
		var info *Info
		f := hx.Guard("C19", func() *hx.Failure {
			var f *hx.Failure
			f, info = run(c)
			return f
		})
		if info == nil {
			info = &Info{Flags: map[string]bool{}}
		}
		rec.Eval(c, info.Flags["nontrivial:write-under-later-version-then-switch-back"] || info.Flags["nontrivial:delivery-with-field-unknown-to-receiver"], labelsOf(info)...)
		rec.Check(t, c, f)
	})
}

func runRaw(raw []byte) *hx.Failure {
	var c Case
	dec := json.NewDecoder(strings.NewReader(string(raw)))
	if err := dec.Decode(&c); err != nil {
		return hx.Failf("C19/replay-file", "%v", err)
	}
	return hx.Guard("C19", func() *hx.Failure { f, _ := run(c); return f })
}

func TestReplay(t *testing.T) {
	raw := hx.ReplayCase(t)
	rec.SetReplaying()
	var c Case
	if err := json.Unmarshal(raw, &c); err != nil {
		t.Fatal(err)
	}
	var info *Info
	f := hx.Guard("C19", func() *hx.Failure {
		var f *hx.Failure
		f, info = run(c)
		return f
	})
	if info != nil {
		t.Logf("labels: %v", labelsOf(info))
		for _, l := range info.Trace {
			t.Log(l)
		}
	}
	rec.Check(t, c, f)
}

func TestRegress(t *testing.T) {
	hx.Regress(t, "testdata/regress", runRaw, rec)
}
