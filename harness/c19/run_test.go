package c19

import (
	"context"
	"encoding/json"
	"fmt"
	"sort"
	"strconv"
	"strings"

	"github.com/ipfs/go-cid"
	"github.com/sourcenetwork/immutable"
	"github.com/sourcenetwork/lens/host-go/config/model"

	"github.com/sourcenetwork/defradb/client"
	"github.com/sourcenetwork/defradb/event"
	"github.com/sourcenetwork/defradb/internal/core"
	coreblock "github.com/sourcenetwork/defradb/internal/core/block"
	"github.com/sourcenetwork/defradb/internal/datastore"
	"github.com/sourcenetwork/defradb/internal/keys"
	"github.com/sourcenetwork/defradb/verifharness/hx"
)

// Info is what a run reports besides the verdict: classification flags and a readable trace.
type Info struct {
	Flags map[string]bool
	Trace []string
}

func (in *Info) flag(s string) { in.Flags[s] = true }
func (in *Info) tracef(format string, a ...any) {
	if len(in.Trace) < 400 {
		in.Trace = append(in.Trace, fmt.Sprintf(format, a...))
	}
}

// ---- values -----------------------------------------------------------------------------------

func isCounter(k string) bool { return k == "pn" || k == "pc" || k == "pf" }

func gqlType(k string) string {
	switch k {
	case "pn":
		return "Int @crdt(type: pncounter)"
	case "pc":
		return "Int @crdt(type: pcounter)"
	case "pf":
		return "Float @crdt(type: pncounter)"
	}
	return k
}

func patchJSON(col string, f Field) string {
	kind, typ := f.K, ""
	switch f.K {
	case "pn":
		kind, typ = "Int", `, "Typ": 4`
	case "pc":
		kind, typ = "Int", `, "Typ": 5`
	case "pf":
		kind, typ = "Float", `, "Typ": 4`
	}
	return fmt.Sprintf(`[{ "op": "add", "path": "/%s/Fields/-", "value": {"Name": %q, "Kind": %q%s} }]`, col, f.N, kind, typ)
}

var (
	intPool    = []int64{0, 1, -1, 7, 2147483647, -2147483648, 42, 100}
	strPool    = []string{"", "a", "b", "héllo wörld", `q"uo\te`, "null", "line\nbreak", strings.Repeat("x", 200)}
	floatPool  = []float64{0, 0.25, -1.5, 3.75, 1e10, -0.5, 2, 1024.125}
	timePool   = []string{"2020-01-02T03:04:05Z", "1999-12-31T23:59:59Z", "2038-01-19T03:14:08Z", "1970-01-01T00:00:00Z", "2020-01-02T03:04:05.123456789Z", "2001-09-09T01:46:40Z", "1969-07-20T20:17:40Z", "2024-02-29T12:00:00Z"}
	blobPool   = []string{"00ff", "abcd", "00", "deadbeef", "ff", "0102030405", "7f", "cafe"}
	jsonPool   = [][2]string{{`{a: 1}`, `{"a":1}`}, {`[1, 2]`, `[1,2]`}, {`"s"`, `"s"`}, {`5`, `5`}, {`true`, `true`}, {`{a: {b: [null, "x"]}}`, `{"a":{"b":[null,"x"]}}`}, {`0.5`, `0.5`}, {`{}`, `{}`}}
	intArrPool = [][2]string{{`[]`, `[]`}, {`[1, null, 3]`, `[1,null,3]`}, {`[5]`, `[5]`}, {`[0, -1]`, `[0,-1]`}}
	strArrPool = [][2]string{{`[]`, `[]`}, {`["a", ""]`, `["a",""]`}, {`["x"]`, `["x"]`}, {`["é", "b", "b"]`, `["é","b","b"]`}}
	pnPool     = []float64{1, -3, 5, 2, -1, 4, 7, -2}
	pcPool     = []float64{1, 2, 3, 4, 5, 1, 2, 3}
	pfPool     = []float64{0.25, -0.5, 1.5, 2, -0.25, 0.75, 1, -1}
)

func floatLit(f float64) string {
	s := strconv.FormatFloat(f, 'f', -1, 64)
	if !strings.Contains(s, ".") {
		s += ".0"
	}
	return s
}

// value maps (kind, seed) to a GraphQL literal and the value the harness expects to read back
// (for counters: the increment as float64).
func value(kind string, seed int) (string, any) {
	if seed < 0 {
		return "null", nil
	}
	switch kind {
	case "Int":
		v := intPool[seed%len(intPool)]
		return strconv.FormatInt(v, 10), hx.ParseJSON(strconv.FormatInt(v, 10))
	case "String":
		v := strPool[seed%len(strPool)]
		b, _ := json.Marshal(v)
		return string(b), v
	case "Float":
		v := floatPool[seed%len(floatPool)]
		return floatLit(v), v
	case "Boolean":
		v := seed%2 == 1
		return strconv.FormatBool(v), v
	case "DateTime":
		v := timePool[seed%len(timePool)]
		return strconv.Quote(v), v
	case "Blob":
		v := blobPool[seed%len(blobPool)]
		return strconv.Quote(v), v
	case "JSON":
		p := jsonPool[seed%len(jsonPool)]
		return p[0], hx.ParseJSON(p[1])
	case "[Int]":
		p := intArrPool[seed%len(intArrPool)]
		return p[0], hx.ParseJSON(p[1])
	case "[String!]":
		p := strArrPool[seed%len(strArrPool)]
		return p[0], hx.ParseJSON(p[1])
	case "pn":
		v := pnPool[seed%len(pnPool)]
		return strconv.FormatInt(int64(v), 10), v
	case "pc":
		v := pcPool[seed%len(pcPool)]
		return strconv.FormatInt(int64(v), 10), v
	case "pf":
		v := pfPool[seed%len(pfPool)]
		return floatLit(v), v
	}
	hx.Harnessf("unknown kind %q", kind)
	return "", nil
}

func defaultOf(f Field) (string, any) {
	if f.K == "Int" {
		return "@default(int: 7)", hx.ParseJSON("7")
	}
	return `@default(string: "dflt")`, "dflt"
}

// ---- model ------------------------------------------------------------------------------------

type ver struct {
	parent int
	added  string
	fields []Field
	id     string
	depth  int
}

func (v *ver) has(name string) bool {
	for _, f := range v.fields {
		if f.N == name {
			return true
		}
	}
	return false
}

type docModel struct {
	id    string
	k     int
	taint map[string]bool // field-level history diverged between the nodes (a delivery was ignored)
	fuzzy bool            // delete concurrent with update: only identity and _deleted are compared
}

type colModel struct {
	name  string
	vers  []*ver
	child map[string]int
	docs  []*docModel
}

func (cm *colModel) isDescendant(v, anc int) bool {
	for v >= 0 {
		if v == anc {
			return true
		}
		v = cm.vers[v].parent
	}
	return false
}

type pend struct {
	val any
	inc float64
}

type nodeDoc struct {
	has         bool
	vals        map[string]any
	del         bool
	pend        map[string]*pend
	pendDel     bool
	commits     map[string]string
	commitsInit bool
	vers        map[int]bool
}

type nodeCol struct {
	known      map[int]bool
	active     int
	colDesc    map[int]string
	schDesc    map[int]string
	docs       []*nodeDoc
	wroteUnder map[int]bool
	rootSwitch bool
}

type nodeState struct {
	idx  int
	n    *hx.Node
	cols []*nodeCol
	// the update notifications of the node, by cid: a head is delivered under the ids its own notification carried
	tap       *hx.EventTap
	announced map[string]event.Update
}

type world struct {
	c            Case
	cols         []*colModel
	nodes        []*nodeState
	info         *Info
	kseq         int
	avoidRoot    bool
	avoidRepatch bool
	step         int
}

type opctx struct {
	kind       string
	ci         int
	target     int
	prevActive int
	expectNew  int
	repatch    bool
}

func sdlOf(c Case) string {
	var sb strings.Builder
	for ci, fs := range c.Cols {
		fmt.Fprintf(&sb, "type %s {\n  k: Int\n", colNames[ci])
		for _, f := range fs {
			d := ""
			if f.D {
				d, _ = defaultOf(f)
			}
			fmt.Fprintf(&sb, "  %s: %s %s\n", f.N, gqlType(f.K), d)
		}
		sb.WriteString("}\n")
	}
	return sb.String()
}

func run(c Case) (*hx.Failure, *Info) {
	info := &Info{Flags: map[string]bool{}}
	if len(c.Cols) == 0 || len(c.Cols) > 2 {
		hx.Harnessf("case has %d collections", len(c.Cols))
	}
	w := &world{c: c, info: info}
	w.avoidRoot = c.Avoid && rec.IsKnown(sigRootSwitch)
	w.avoidRepatch = c.Avoid && rec.IsKnown(sigRepatch)
	for ci, fs := range c.Cols {
		if len(fs) == 0 {
			hx.Harnessf("collection %d has no fields", ci)
		}
		root := &ver{parent: -1, fields: append([]Field{{N: "k", K: "Int"}}, fs...)}
		w.cols = append(w.cols, &colModel{name: colNames[ci], vers: []*ver{root}, child: map[string]int{}})
	}
	sdl := sdlOf(c)
	info.tracef("schema on every node:\n%s", sdl)
	nn := 1
	if c.Two {
		nn = 2
		info.flag("two-nodes")
	}
	if len(c.Cols) > 1 {
		info.flag("two-collections")
	}
	for i := 0; i < nn; i++ {
		n := hx.MustMemNode()
		defer n.Close()
		if _, err := n.DB.AddSchema(n.Ctx, sdl); err != nil {
			hx.Harnessf("schema rejected: %v\n%s", err, sdl)
		}
		ns := &nodeState{idx: i, n: n, tap: hx.NewEventTap(n), announced: map[string]event.Update{}}
		defer ns.tap.Close()
		for range c.Cols {
			ns.cols = append(ns.cols, &nodeCol{known: map[int]bool{0: true}, colDesc: map[int]string{}, schDesc: map[int]string{}, wroteUnder: map[int]bool{}})
		}
		w.nodes = append(w.nodes, ns)
		if f := w.checkDescs(ns, opctx{kind: "boot", expectNew: 0, ci: -1}); f != nil {
			return f, info
		}
	}
	for i, o := range c.Ops {
		w.step = i
		if f := w.apply(o); f != nil {
			f.Msg = fmt.Sprintf("step %d (%s): %s", i, o.K, f.Msg)
			return f, info
		}
	}
	for _, ns := range w.nodes {
		if f := w.fullCheck(ns, opctx{kind: "final", ci: -1, expectNew: -1}); f != nil {
			f.Msg = "final check: " + f.Msg
			return f, info
		}
	}
	return nil, info
}

func (w *world) apply(o Op) *hx.Failure {
	ni := 0
	if w.c.Two {
		ni = ((o.N % 2) + 2) % 2
	}
	ns := w.nodes[ni]
	ci := ((o.C % len(w.cols)) + len(w.cols)) % len(w.cols)
	switch o.K {
	case "create":
		return w.opCreate(ns, ci, o)
	case "update":
		return w.opUpdate(ns, ci, o)
	case "delete":
		return w.opDelete(ns, ci, o)
	case "patch":
		return w.opPatch(ns, ci, o)
	case "switch":
		return w.opSwitch(ns, ci, o)
	case "sync":
		if !w.c.Two {
			return nil
		}
		return w.opSync(ci, o)
	}
	hx.Harnessf("unknown op %q", o.K)
	return nil
}

// resolve turns the abstract writes into (field, literal, value) of the active version.
type fieldWrite struct {
	f   Field
	lit string
	val any
}

func (w *world) resolve(ns *nodeState, ci int, ws []Write) []fieldWrite {
	v := w.cols[ci].vers[ns.cols[ci].active]
	writable := v.fields[1:] // without k
	seen := map[string]bool{}
	var out []fieldWrite
	for _, x := range ws {
		f := writable[((x.S%len(writable))+len(writable))%len(writable)]
		if seen[f.N] {
			continue
		}
		seen[f.N] = true
		seed := x.V
		if seed < 0 && (isCounter(f.K) || w.c.Two) {
			seed = 0
		}
		lit, val := value(f.K, seed)
		out = append(out, fieldWrite{f: f, lit: lit, val: val})
	}
	return out
}

func (w *world) localDocs(ns *nodeState, ci int) []int {
	var out []int
	for di, d := range ns.cols[ci].docs {
		if d.has {
			out = append(out, di)
		}
	}
	return out
}

func (w *world) noteWrite(ns *nodeState, ci int, fws []fieldWrite) {
	nc := ns.cols[ci]
	if len(fws) == 0 {
		return
	}
	nc.wroteUnder[nc.active] = true
	if nc.active != 0 {
		w.info.flag("write-under-later-version")
	}
	if len(w.cols[ci].vers) > 1 && nc.active == 0 {
		w.info.flag("write-under-initial-version-while-later-exists")
	}
	for _, fw := range fws {
		if isCounter(fw.f.K) {
			w.info.flag("counter-write")
		}
		if strings.HasPrefix(fw.f.N, "p") {
			w.info.flag("write-to-added-field")
		}
		if fw.val == nil {
			w.info.flag("null-write")
		}
	}
	if nc.rootSwitch {
		w.info.flag("write-after-switch-to-root")
	}
}

func applyWrite(d *nodeDoc, fw fieldWrite) {
	if isCounter(fw.f.K) {
		inc := fw.val.(float64)
		cur, _ := d.vals[fw.f.N].(float64)
		d.vals[fw.f.N] = cur + inc
		p := d.pend[fw.f.N]
		if p == nil {
			p = &pend{}
			d.pend[fw.f.N] = p
		}
		p.inc += inc
		return
	}
	d.vals[fw.f.N] = fw.val
	d.pend[fw.f.N] = &pend{val: fw.val}
}

func (w *world) opCreate(ns *nodeState, ci int, o Op) *hx.Failure {
	cm, nc := w.cols[ci], ns.cols[ci]
	if len(cm.docs) >= 8 {
		return nil
	}
	fws := w.resolve(ns, ci, o.W)
	w.kseq++
	k := w.kseq
	parts := []string{fmt.Sprintf("k: %d", k)}
	for _, fw := range fws {
		parts = append(parts, fw.f.N+": "+fw.lit)
	}
	q := fmt.Sprintf(`mutation { create_%s(input: {%s}) { _docID } }`, cm.name, strings.Join(parts, ", "))
	w.info.tracef("step %d node %d (active v%d): %s", w.step, ns.idx, nc.active, q)
	r := ns.n.Exec(q)
	if !r.OK() || len(r.Rows("create_"+cm.name)) != 1 {
		return hx.Failf("C19/write-rejected/create", "node %d, active version v%d %s: %s failed: %v %s", ns.idx, nc.active, w.verDesc(ci, nc.active), q, r.Errors, r.Panic)
	}
	id, _ := r.Rows("create_" + cm.name)[0]["_docID"].(string)
	for _, d := range cm.docs {
		if d.id == id {
			hx.Harnessf("generator produced two documents with the same id %s", id)
		}
	}
	cm.docs = append(cm.docs, &docModel{id: id, k: k, taint: map[string]bool{}})
	for _, other := range w.nodes {
		other.cols[ci].docs = append(other.cols[ci].docs, &nodeDoc{vals: map[string]any{}, pend: map[string]*pend{}, vers: map[int]bool{}})
	}
	d := nc.docs[len(nc.docs)-1]
	d.has = true
	d.vers[nc.active] = true
	applyWrite(d, fieldWrite{f: Field{N: "k", K: "Int"}, val: hx.ParseJSON(strconv.Itoa(k))})
	written := map[string]bool{}
	for _, fw := range fws {
		applyWrite(d, fw)
		written[fw.f.N] = true
	}
	for _, f := range cm.vers[nc.active].fields {
		if f.D && !written[f.N] {
			_, dv := defaultOf(f)
			applyWrite(d, fieldWrite{f: f, val: dv})
			w.info.flag("default-applied")
		}
	}
	w.noteWrite(ns, ci, append(fws, fieldWrite{f: Field{N: "k", K: "Int"}, val: 1}))
	return w.afterWrite(ns, ci, len(nc.docs)-1, "create")
}

func (w *world) pickDoc(ns *nodeState, ci int, idx int) int {
	local := w.localDocs(ns, ci)
	if len(local) == 0 {
		return -1
	}
	return local[((idx%len(local))+len(local))%len(local)]
}

func (w *world) opUpdate(ns *nodeState, ci int, o Op) *hx.Failure {
	cm, nc := w.cols[ci], ns.cols[ci]
	di := w.pickDoc(ns, ci, o.D)
	if di < 0 {
		return nil
	}
	fws := w.resolve(ns, ci, o.W)
	if len(fws) == 0 {
		return nil
	}
	d := nc.docs[di]
	var parts []string
	for _, fw := range fws {
		parts = append(parts, fw.f.N+": "+fw.lit)
	}
	q := fmt.Sprintf(`mutation { update_%s(docID: %q, input: {%s}) { _docID } }`, cm.name, cm.docs[di].id, strings.Join(parts, ", "))
	w.info.tracef("step %d node %d (active v%d): %s", w.step, ns.idx, nc.active, q)
	r := ns.n.Exec(q)
	want := 1
	if d.del {
		want = 0
		w.info.flag("update-of-deleted-document")
	}
	if !r.OK() || len(r.Rows("update_"+cm.name)) != want {
		return hx.Failf("C19/write-rejected/update", "node %d, active version v%d %s, document deleted=%v: %s returned %s errors=%v %s (expected %d row)", ns.idx, nc.active, w.verDesc(ci, nc.active), d.del, q, hx.Canon(r.Data), r.Errors, r.Panic, want)
	}
	if !d.del {
		for _, fw := range fws {
			applyWrite(d, fw)
		}
		d.vers[nc.active] = true
		w.noteWrite(ns, ci, fws)
	}
	return w.afterWrite(ns, ci, di, "update")
}

func (w *world) opDelete(ns *nodeState, ci int, o Op) *hx.Failure {
	cm, nc := w.cols[ci], ns.cols[ci]
	di := w.pickDoc(ns, ci, o.D)
	if di < 0 {
		return nil
	}
	d := nc.docs[di]
	q := fmt.Sprintf(`mutation { delete_%s(docID: %q) { _docID } }`, cm.name, cm.docs[di].id)
	w.info.tracef("step %d node %d (active v%d): %s", w.step, ns.idx, nc.active, q)
	r := ns.n.Exec(q)
	want := 1
	if d.del {
		want = 0
	}
	if !r.OK() || len(r.Rows("delete_"+cm.name)) != want {
		return hx.Failf("C19/write-rejected/delete", "node %d, active version v%d: %s returned %s errors=%v %s (expected %d row)", ns.idx, nc.active, q, hx.Canon(r.Data), r.Errors, r.Panic, want)
	}
	if !d.del {
		d.del = true
		d.pendDel = true
		d.vers[nc.active] = true
		w.info.flag("delete")
		if nc.active != 0 {
			w.info.flag("delete-under-later-version")
		}
	}
	return w.afterWrite(ns, ci, di, "delete")
}

func (w *world) afterWrite(ns *nodeState, ci, di int, kind string) *hx.Failure {
	if f := w.checkValues(ns, ci, "after-"+kind); f != nil {
		return f
	}
	return w.checkCommitsW(ns, ci, di, false, true, "after-"+kind)
}

func (w *world) verDesc(ci, vi int) string {
	v := w.cols[ci].vers[vi]
	var names []string
	for _, f := range v.fields {
		names = append(names, f.N)
	}
	return "[" + strings.Join(names, " ") + "]"
}

func (w *world) opPatch(ns *nodeState, ci int, o Op) *hx.Failure {
	cm, nc := w.cols[ci], ns.cols[ci]
	f := patchPool[((o.F%len(patchPool))+len(patchPool))%len(patchPool)]
	av := cm.vers[nc.active]
	patch := patchJSON(cm.name, f)
	if av.has(f.N) {
		// the active version already has the field: the patch must be rejected and change nothing
		w.info.tracef("step %d node %d (active v%d): PatchSchema(%s, setDefault=%v) expecting rejection", w.step, ns.idx, nc.active, patch, o.Def)
		err := ns.n.DB.PatchSchema(ns.n.Ctx, patch, immutable.None[model.Lens](), o.Def)
		if err == nil {
			return hx.Failf("C19/patch/duplicate-field-accepted", "node %d: patch adding %s to version %s, which already has it, was accepted", ns.idx, f.N, w.verDesc(ci, nc.active))
		}
		w.info.flag("patch-rejected-duplicate-field")
		return w.fullCheck(ns, opctx{kind: "rejected-patch", ci: ci, expectNew: -1})
	}
	key := fmt.Sprintf("%d/%s", nc.active, f.N)
	vi, exists := cm.child[key]
	repatch := exists && nc.known[vi]
	if repatch && w.avoidRepatch {
		return nil
	}
	if len(cm.vers) >= 7 && !exists {
		return nil
	}
	if !exists {
		nv := &ver{parent: nc.active, added: f.N, fields: append(append([]Field{}, av.fields...), f), depth: av.depth + 1}
		cm.vers = append(cm.vers, nv)
		vi = len(cm.vers) - 1
		cm.child[key] = vi
	}
	w.info.tracef("step %d node %d (active v%d): PatchSchema(%s, setDefault=%v) -> v%d %s", w.step, ns.idx, nc.active, patch, o.Def, vi, w.verDesc(ci, vi))
	err := ns.n.DB.PatchSchema(ns.n.Ctx, patch, immutable.None[model.Lens](), o.Def)
	if err != nil {
		return hx.Failf("C19/patch/rejected", "node %d: additive patch %s on active version %s was rejected: %v", ns.idx, patch, w.verDesc(ci, nc.active), err)
	}
	ctx := opctx{kind: "patch", ci: ci, target: vi, prevActive: nc.active, expectNew: -1, repatch: repatch}
	if !nc.known[vi] {
		ctx.expectNew = vi
	}
	nc.known[vi] = true
	if repatch {
		w.info.flag("patch-reapplied-to-existing-version")
	}
	if isCounter(f.K) {
		w.info.flag("patch-adds-counter")
	}
	if !o.Def {
		w.info.flag("patch-not-default")
	} else {
		w.noteSwitch(ns, ci, nc.active, vi)
		nc.active = vi
	}
	nchild := map[int]int{}
	for _, v := range cm.vers {
		if v.parent >= 0 {
			nchild[v.parent]++
			if nchild[v.parent] > 1 {
				w.info.flag("branching-versions")
			}
		}
	}
	if cm.vers[vi].depth >= 3 {
		w.info.flag("chain-depth>=3")
	}
	return w.fullCheck(ns, ctx)
}

// noteSwitch records classification flags of an active-version change from -> to.
func (w *world) noteSwitch(ns *nodeState, ci, from, to int) {
	cm, nc := w.cols[ci], ns.cols[ci]
	if from == to {
		return
	}
	for v := range nc.wroteUnder {
		if v != 0 && v != to && !cm.isDescendant(to, v) {
			w.info.flag("nontrivial:write-under-later-version-then-switch-back")
		}
	}
	tf, ff := cm.vers[to], cm.vers[from]
	for _, d := range nc.docs {
		if !d.has {
			continue
		}
		for name, val := range d.vals {
			if val == nil {
				continue
			}
			if ff.has(name) && !tf.has(name) {
				w.info.flag("switch-hides-field-with-data")
			}
			if !ff.has(name) && tf.has(name) {
				w.info.flag("switch-reveals-field-with-data")
			}
		}
	}
}

func (w *world) opSwitch(ns *nodeState, ci int, o Op) *hx.Failure {
	cm, nc := w.cols[ci], ns.cols[ci]
	var known []int
	for vi := range cm.vers {
		if nc.known[vi] {
			known = append(known, vi)
		}
	}
	target := known[((o.V%len(known))+len(known))%len(known)]
	if w.avoidRoot && target == 0 && nc.active != 0 {
		// known finding: switching to the root version leaves the previous one active too
		if len(known) < 2 {
			return nil
		}
		target = known[1+((o.V%(len(known)-1))+(len(known)-1))%(len(known)-1)]
	}
	if o.Def && target != nc.active {
		// the same switch through the collection-patch route
		patch := fmt.Sprintf(`[{"op": "replace", "path": "/%s/IsActive", "value": false}, {"op": "replace", "path": "/%s/IsActive", "value": true}]`,
			cm.vers[nc.active].id, cm.vers[target].id)
		w.info.tracef("step %d node %d (active v%d): PatchCollection %s", w.step, ns.idx, nc.active, patch)
		w.info.flag("switch-via-patch-collection")
		if err := ns.n.DB.PatchCollection(ns.n.Ctx, patch); err != nil {
			return hx.Failf("C19/switch/rejected-patch-collection", "node %d: PatchCollection %s failed: %v", ns.idx, patch, err)
		}
	} else {
		w.info.tracef("step %d node %d (active v%d): SetActiveSchemaVersion(v%d %s)", w.step, ns.idx, nc.active, target, w.verDesc(ci, target))
		err := ns.n.DB.SetActiveSchemaVersion(ns.n.Ctx, cm.vers[target].id)
		if err != nil {
			return hx.Failf("C19/switch/rejected", "node %d: SetActiveSchemaVersion(v%d) failed: %v", ns.idx, target, err)
		}
	}
	prev := nc.active
	ctx := opctx{kind: "switch", ci: ci, target: target, prevActive: prev, expectNew: -1}
	switch {
	case target == prev:
		w.info.flag("switch-to-already-active")
	case target == 0:
		w.info.flag("switch-to-root")
		nc.rootSwitch = true
	case cm.isDescendant(target, prev):
		w.info.flag("switch-forward")
		if nc.rootSwitch {
			w.info.flag("switch-forward-after-switch-to-root")
		}
	case cm.isDescendant(prev, target):
		w.info.flag("switch-back-to-intermediate")
	default:
		w.info.flag("switch-across-branches")
	}
	w.noteSwitch(ns, ci, prev, target)
	nc.active = target
	return w.fullCheck(ns, ctx)
}

// ---- two nodes --------------------------------------------------------------------------------

func heads(n *hx.Node, docID string) []cid.Cid {
	hs := coreblock.NewHeadSet(datastore.HeadstoreFrom(n.DB.Rootstore()), keys.HeadstoreDocKey{DocID: docID, FieldID: core.COMPOSITE_NAMESPACE})
	cids, _, err := hs.List(context.Background())
	if err != nil {
		hx.Harnessf("cannot list heads: %v", err)
	}
	sort.Slice(cids, func(i, j int) bool { return cids[i].String() < cids[j].String() })
	return cids
}

func (w *world) opSync(ci int, o Op) *hx.Failure {
	cm := w.cols[ci]
	var cand []int
	for di := range cm.docs {
		if w.nodes[0].cols[ci].docs[di].has || w.nodes[1].cols[ci].docs[di].has {
			cand = append(cand, di)
		}
	}
	if len(cand) == 0 {
		return nil
	}
	if !o.All {
		cand = []int{cand[((o.D%len(cand))+len(cand))%len(cand)]}
	}
	for _, di := range cand {
		if f := w.syncDoc(ci, di); f != nil {
			return f
		}
	}
	for _, ns := range w.nodes {
		if f := w.fullCheckMode(ns, opctx{kind: "sync", ci: ci, expectNew: -1}, false); f != nil {
			return f
		}
	}
	return nil
}

type ambiguous struct {
	f     Field
	cands []any
	nodes []int
}

func (w *world) syncDoc(ci, di int) *hx.Failure {
	cm := w.cols[ci]
	dm := cm.docs[di]
	a, b := w.nodes[0].cols[ci].docs[di], w.nodes[1].cols[ci].docs[di]
	rootID := cm.vers[0].id
	// what each side will send is fixed before anything is delivered
	var hs [2][]cid.Cid
	for i, d := range []*nodeDoc{a, b} {
		if d.has {
			hs[i] = heads(w.nodes[i].n, dm.id)
		}
	}
	av := [2]*ver{cm.vers[w.nodes[0].cols[ci].active], cm.vers[w.nodes[1].cols[ci].active]}
	nd := [2]*nodeDoc{a, b}
	// does the delivery x -> y carry a field the receiver's active version lacks?
	xver := [2]bool{}
	for x := 0; x < 2; x++ {
		y := 1 - x
		for name := range nd[x].pend {
			if !av[y].has(name) {
				xver[x] = true
			}
		}
	}
	for _, ns := range w.nodes {
		for _, u := range ns.tap.Take() {
			ns.announced[u.Cid.String()] = u
		}
	}
	for x := 0; x < 2; x++ {
		y := 1 - x
		for _, h := range hs[x] {
			// the network layer routes a commit by the ids of the notification that announced it
			docID, colID := dm.id, rootID
			if u, ok := w.nodes[x].announced[h.String()]; ok {
				docID, colID = u.DocID, u.CollectionID
				w.info.flag("delivery-under-the-ids-of-the-senders-notification")
				if w.nodes[x].cols[ci].active != 0 {
					w.info.flag("delivery-of-a-commit-announced-under-a-later-version")
				}
			}
			w.info.tracef("step %d: deliver %s head %s node %d (active v%d) -> node %d (active v%d)", w.step, dm.id, h, x, w.nodes[x].cols[ci].active, y, w.nodes[y].cols[ci].active)
			if _, err := hx.CopyClosure(w.nodes[y].n.Ctx, w.nodes[x].n, w.nodes[y].n, h); err != nil {
				hx.Harnessf("copy closure: %v", err)
			}
			err := w.nodes[y].n.DB.VerifMerge(w.nodes[y].n.Ctx, event.Merge{DocID: docID, Cid: h, CollectionID: colID})
			if err != nil {
				cls := "receiver-knows-all-fields"
				if xver[x] {
					cls = "receiver-lacks-field"
				}
				return hx.Failf("C19/merge-error/"+cls, "delivery of %s (document %s) from node %d (active %s) to node %d (active %s) failed: %v", h, dm.id, x, w.verDesc(ci, w.nodes[x].cols[ci].active), y, w.verDesc(ci, w.nodes[y].cols[ci].active), err)
			}
		}
	}
	w.info.flag("sync")
	if w.nodes[0].cols[ci].active != w.nodes[1].cols[ci].active {
		w.info.flag("sync-between-different-active-versions")
	}
	// model
	pendWrites := [2]bool{len(a.pend) > 0, len(b.pend) > 0}
	for x := 0; x < 2; x++ {
		y := 1 - x
		if nd[x].has && !nd[y].has {
			nd[y].has = true
			w.info.flag("document-replicated-to-other-node")
		}
		for v := range nd[x].vers {
			nd[y].vers[v] = true
		}
	}
	if !(a.has && b.has) {
		return nil
	}
	names := map[string]bool{}
	for n := range a.pend {
		names[n] = true
	}
	for n := range b.pend {
		names[n] = true
	}
	var sorted []string
	for n := range names {
		sorted = append(sorted, n)
	}
	sort.Strings(sorted)
	var amb []ambiguous
	fieldOf := func(name string) Field {
		for _, v := range cm.vers {
			for _, f := range v.fields {
				if f.N == name {
					return f
				}
			}
		}
		hx.Harnessf("unknown field %s", name)
		return Field{}
	}
	for _, name := range sorted {
		f := fieldOf(name)
		p := [2]*pend{a.pend[name], b.pend[name]}
		for x := 0; x < 2; x++ {
			y := 1 - x
			if p[x] != nil && !av[y].has(name) {
				dm.taint[name] = true
				w.info.flag("nontrivial:delivery-with-field-unknown-to-receiver")
				if w.nodes[y].cols[ci].known[w.firstVersionWith(ci, name)] {
					w.info.flag("field-dropped-though-receiver-knows-a-version-with-it")
				}
			}
		}
		if dm.taint[name] {
			continue
		}
		if isCounter(f.K) {
			for x := 0; x < 2; x++ {
				y := 1 - x
				if p[x] != nil {
					cur, _ := nd[y].vals[name].(float64)
					nd[y].vals[name] = cur + p[x].inc
					w.info.flag("counter-increment-delivered")
				}
			}
			continue
		}
		switch {
		case p[0] != nil && p[1] != nil:
			amb = append(amb, ambiguous{f: f, cands: []any{p[0].val, p[1].val}})
			w.info.flag("concurrent-register-writes")
		case p[0] != nil:
			b.vals[name] = p[0].val
		case p[1] != nil:
			a.vals[name] = p[1].val
		}
	}
	if a.pendDel || b.pendDel {
		if (a.pendDel && pendWrites[1]) || (b.pendDel && pendWrites[0]) {
			dm.fuzzy = true
			w.info.flag("delete-concurrent-with-update")
		}
		a.del, b.del = true, true
		w.info.flag("delete-delivered")
	}
	for _, d := range nd {
		d.pend = map[string]*pend{}
		d.pendDel = false
	}
	// concurrent register writes: either value is admissible, both nodes must agree
	for _, am := range amb {
		var got [2]any
		for i, ns := range w.nodes {
			q := fmt.Sprintf(`query { %s(docID: %q, showDeleted: true) { %s } }`, cm.name, dm.id, am.f.N)
			r := ns.n.Exec(q)
			if !r.OK() || len(r.Rows(cm.name)) != 1 {
				return hx.Failf("C19/unreadable/after-sync", "node %d: %s returned %s errors=%v %s", i, q, hx.Canon(r.Data), r.Errors, r.Panic)
			}
			got[i] = r.Rows(cm.name)[0][am.f.N]
		}
		if dm.fuzzy {
			continue
		}
		ok := false
		for _, c := range am.cands {
			if hx.CanonValue(c) == hx.CanonValue(got[0]) {
				ok = true
			}
		}
		if !ok {
			return hx.Failf("C19/cross-version/value-not-written-by-anyone", "document %s field %s after exchange: node 0 shows %s, concurrent writes were %s and %s", dm.id, am.f.N, hx.CanonValue(got[0]), hx.CanonValue(am.cands[0]), hx.CanonValue(am.cands[1]))
		}
		if hx.CanonValue(got[0]) != hx.CanonValue(got[1]) {
			return hx.Failf("C19/cross-version/nodes-disagree", "document %s field %s (known to both active versions) after complete exchange: node 0 (active %s) shows %s, node 1 (active %s) shows %s", dm.id, am.f.N, w.verDesc(ci, w.nodes[0].cols[ci].active), hx.CanonValue(got[0]), w.verDesc(ci, w.nodes[1].cols[ci].active), hx.CanonValue(got[1]))
		}
		a.vals[am.f.N], b.vals[am.f.N] = got[0], got[0]
	}
	return nil
}

func (w *world) firstVersionWith(ci int, name string) int {
	for vi, v := range w.cols[ci].vers {
		if v.has(name) {
			return vi
		}
	}
	return 0
}

// ---- oracle -----------------------------------------------------------------------------------

func (w *world) fullCheck(ns *nodeState, ctx opctx) *hx.Failure {
	return w.fullCheckMode(ns, ctx, true)
}

func (w *world) fullCheckMode(ns *nodeState, ctx opctx, commitsEqual bool) *hx.Failure {
	if f := w.checkDescs(ns, ctx); f != nil {
		return f
	}
	for ci := range w.cols {
		if f := w.checkValues(ns, ci, "after-"+ctx.kind); f != nil {
			return f
		}
		for di := range w.cols[ci].docs {
			if f := w.checkCommits(ns, ci, di, commitsEqual, "after-"+ctx.kind); f != nil {
				return f
			}
		}
		if f := w.checkUnknownField(ns, ci, ctx.kind); f != nil {
			return f
		}
		if f := w.checkNullFilter(ns, ci, "after-"+ctx.kind); f != nil {
			return f
		}
		if f := w.checkCollectionGet(ns, ci, "after-"+ctx.kind); f != nil {
			return f
		}
	}
	return nil
}

type descSnap struct {
	col    string
	sch    string
	active bool
	ver    client.CollectionVersion
	schema client.SchemaDescription
}

func fieldNames(v client.CollectionVersion) []string {
	var out []string
	for _, f := range v.Fields {
		out = append(out, f.Name)
	}
	return out
}

func hasDup(names []string) bool {
	seen := map[string]bool{}
	for _, n := range names {
		if seen[n] {
			return true
		}
		seen[n] = true
	}
	return false
}

// repeatsOnly reports whether now is old followed by one or more further copies of old's names
// (the shape the re-applied patch produces) and nothing else about the version changed.
func repeatsOnly(old, now client.CollectionVersion) bool {
	on, nn := fieldNames(old), fieldNames(now)
	if len(on) == 0 || len(nn) <= len(on) || len(nn)%len(on) != 0 {
		return false
	}
	for i, n := range nn {
		if n != on[i%len(on)] {
			return false
		}
	}
	o2, n2 := old, now
	o2.Fields, n2.Fields = nil, nil
	o2.IsActive, n2.IsActive = false, false
	return hx.Canon(o2) == hx.Canon(n2)
}

func (w *world) checkDescs(ns *nodeState, ctx opctx) *hx.Failure {
	cols, err := ns.n.DB.GetCollections(ns.n.Ctx, client.CollectionFetchOptions{IncludeInactive: immutable.Some(true)})
	if err != nil {
		return hx.Failf("C19/desc/get-collections-error/after-"+ctx.kind, "node %d: GetCollections(IncludeInactive) failed: %v", ns.idx, err)
	}
	snaps := map[string]*descSnap{}
	for _, c := range cols {
		v := c.Version()
		s := &descSnap{active: v.IsActive, ver: v, schema: c.Schema()}
		v.IsActive = false
		s.col = hx.Canon(v)
		s.sch = hx.Canon(c.Schema())
		if _, dup := snaps[v.VersionID]; dup {
			return hx.Failf("C19/desc/version-listed-twice", "node %d: version %s listed twice", ns.idx, v.VersionID)
		}
		snaps[v.VersionID] = s
	}
	recorded := map[string]bool{}
	// boot: learn the root versions
	if ctx.kind == "boot" {
		for ci, cm := range w.cols {
			var found *descSnap
			for _, s := range snaps {
				if s.ver.Name == cm.name {
					if found != nil {
						hx.Harnessf("two versions of %s after AddSchema", cm.name)
					}
					found = s
				}
			}
			if found == nil {
				hx.Harnessf("collection %s missing after AddSchema", cm.name)
			}
			if cm.vers[0].id != "" && cm.vers[0].id != found.ver.VersionID {
				return hx.Failf("C19/desc/version-id-differs-between-nodes", "initial version of %s is %s on node 0 and %s on node %d", cm.name, cm.vers[0].id, found.ver.VersionID, ns.idx)
			}
			cm.vers[0].id = found.ver.VersionID
			ns.cols[ci].colDesc[0], ns.cols[ci].schDesc[0] = found.col, found.sch
		}
	}
	for ci, cm := range w.cols {
		nc := ns.cols[ci]
		rootID := cm.vers[0].id
		var actives []int
		for vi, v := range cm.vers {
			if !nc.known[vi] {
				continue
			}
			if vi == ctx.expectNew && ctx.ci == ci && nc.colDesc[vi] == "" {
				// find the one unrecorded version of this collection
				var cand []*descSnap
				for id, s := range snaps {
					if s.ver.CollectionID != rootID && s.schema.Root != rootID {
						continue
					}
					isRec := false
					for vj, vv := range cm.vers {
						if vv.id == id && nc.known[vj] && nc.colDesc[vj] != "" {
							isRec = true
						}
					}
					if !isRec {
						cand = append(cand, s)
					}
				}
				if len(cand) != 1 {
					return hx.Failf("C19/desc/patch-did-not-create-one-version", "node %d: after the patch there are %d new versions of %s (expected 1)", ns.idx, len(cand), cm.name)
				}
				s := cand[0]
				if v.id != "" && v.id != s.ver.VersionID {
					return hx.Failf("C19/desc/version-id-differs-between-nodes", "version %s of %s has id %s on the other node and %s on node %d", w.verDesc(ci, vi), cm.name, v.id, s.ver.VersionID, ns.idx)
				}
				v.id = s.ver.VersionID
				src := s.ver.CollectionSources()
				if s.ver.CollectionID != rootID || s.schema.Root != rootID || len(src) != 1 || src[0].SourceCollectionID != cm.vers[v.parent].id {
					return hx.Failf("C19/desc/new-version-not-linked-to-source", "node %d: new version %s of %s: CollectionID=%s schema root=%s sources=%s; expected root %s and source %s", ns.idx, s.ver.VersionID, cm.name, s.ver.CollectionID, s.schema.Root, hx.Canon(s.ver.Sources), rootID, cm.vers[v.parent].id)
				}
				want := []string{"_docID"}
				for _, f := range v.fields {
					want = append(want, f.N)
				}
				got := fieldNames(s.ver)
				var sgot []string
				for _, f := range s.schema.Fields {
					sgot = append(sgot, f.Name)
				}
				sw, sg, ssg := append([]string{}, want...), append([]string{}, got...), append([]string{}, sgot...)
				sort.Strings(sw)
				sort.Strings(sg)
				sort.Strings(ssg)
				if fmt.Sprint(sw) != fmt.Sprint(sg) || fmt.Sprint(sw) != fmt.Sprint(ssg) {
					return hx.Failf("C19/desc/new-version-fields", "node %d: new version of %s has collection fields %v and schema fields %v, expected %v", ns.idx, cm.name, got, sgot, want)
				}
				// every field the source version had is carried over with an unchanged definition
				if ps := snaps[cm.vers[v.parent].id]; ps != nil {
					for _, pf := range ps.ver.Fields {
						nf, ok := s.ver.GetFieldByName(pf.Name)
						if !ok || hx.Canon(nf) != hx.Canon(pf) {
							return hx.Failf("C19/desc/patch-altered-existing-field", "node %d: the patch adding %s to %s changed the collection field %s: was %s, in the new version %s", ns.idx, v.added, cm.name, pf.Name, hx.Canon(pf), hx.Canon(nf))
						}
					}
					for _, pf := range ps.schema.Fields {
						nf, ok := s.schema.GetFieldByName(pf.Name)
						if !ok || hx.Canon(nf) != hx.Canon(pf) {
							return hx.Failf("C19/desc/patch-altered-existing-field", "node %d: the patch adding %s to %s changed the schema field %s: was %s, in the new version %s", ns.idx, v.added, cm.name, pf.Name, hx.Canon(pf), hx.Canon(nf))
						}
					}
				}
				nc.colDesc[vi], nc.schDesc[vi] = s.col, s.sch
			}
			s := snaps[v.id]
			if s == nil {
				return hx.Failf("C19/desc/version-missing/after-"+ctx.kind, "node %d: version v%d %s (%s) of %s is no longer listed", ns.idx, vi, w.verDesc(ci, vi), v.id, cm.name)
			}
			recorded[v.id] = true
			if s.col != nc.colDesc[vi] || s.sch != nc.schDesc[vi] {
				if ctx.repatch && ctx.ci == ci && ctx.target == vi && s.sch == nc.schDesc[vi] {
					var old client.CollectionVersion
					if err := json.Unmarshal([]byte(nc.colDesc[vi]), &old); err == nil && repeatsOnly(old, s.ver) {
						return hx.Failf(sigRepatch, "node %d: re-applying the patch that adds %s to %s while the resulting version already exists rewrote that version's collection description with every field repeated: fields now %v", ns.idx, v.added, w.verDesc(ci, v.parent), fieldNames(s.ver))
					}
				}
				return hx.Failf("C19/desc/version-description-changed/after-"+ctx.kind, "node %d: description of version v%d of %s changed.\n was: %s | %s\n now: %s | %s", ns.idx, vi, cm.name, nc.colDesc[vi], nc.schDesc[vi], s.col, s.sch)
			}
			if hasDup(fieldNames(s.ver)) {
				return hx.Failf("C19/desc/duplicate-fields", "node %d: version v%d of %s lists a field twice: %v", ns.idx, vi, cm.name, fieldNames(s.ver))
			}
			if s.active {
				actives = append(actives, vi)
			}
		}
		if len(actives) != 1 || actives[0] != nc.active {
			if ctx.kind == "switch" && ctx.ci == ci && ctx.target == 0 && ctx.prevActive != 0 && len(actives) == 2 && actives[0] == 0 && actives[1] == ctx.prevActive {
				return hx.Failf(sigRootSwitch, "node %d: SetActiveSchemaVersion(initial version of %s) while v%d %s was active left both versions active (IsActive true on v0 and v%d)", ns.idx, cm.name, ctx.prevActive, w.verDesc(ci, ctx.prevActive), ctx.prevActive)
			}
			return hx.Failf("C19/desc/active-set/after-"+ctx.kind, "node %d: active versions of %s are %v, expected exactly [v%d]", ns.idx, cm.name, actives, nc.active)
		}
		col, err := ns.n.DB.GetCollectionByName(ns.n.Ctx, cm.name)
		if err != nil {
			return hx.Failf("C19/desc/by-name-error/after-"+ctx.kind, "node %d: GetCollectionByName(%s): %v", ns.idx, cm.name, err)
		}
		if col.Version().VersionID != cm.vers[nc.active].id {
			return hx.Failf("C19/desc/by-name-not-active/after-"+ctx.kind, "node %d: GetCollectionByName(%s) returns version %s, the active one is v%d (%s)", ns.idx, cm.name, col.Version().VersionID, nc.active, cm.vers[nc.active].id)
		}
	}
	for id, s := range snaps {
		if !recorded[id] {
			return hx.Failf("C19/desc/unexpected-version/after-"+ctx.kind, "node %d: unexpected collection version %s (name %q, fields %v)", ns.idx, id, s.ver.Name, fieldNames(s.ver))
		}
	}
	return nil
}

func (w *world) checkValues(ns *nodeState, ci int, phase string) *hx.Failure {
	cm, nc := w.cols[ci], ns.cols[ci]
	av := cm.vers[nc.active]
	sel := []string{"_docID", "_deleted"}
	for _, f := range av.fields {
		sel = append(sel, f.N)
	}
	q := fmt.Sprintf(`query { %s(showDeleted: true) { %s } }`, cm.name, strings.Join(sel, " "))
	r := ns.n.Exec(q)
	if !r.OK() {
		return hx.Failf("C19/unreadable/"+phase, "node %d, active version v%d %s: %s failed: %v %s", ns.idx, nc.active, w.verDesc(ci, nc.active), q, r.Errors, r.Panic)
	}
	rows := map[string]map[string]any{}
	for _, row := range r.Rows(cm.name) {
		id, _ := row["_docID"].(string)
		if _, dup := rows[id]; dup {
			return hx.Failf("C19/docs/duplicate-row/"+phase, "node %d: %s returns document %s twice", ns.idx, q, id)
		}
		rows[id] = row
	}
	want := 0
	for di, d := range nc.docs {
		if !d.has {
			continue
		}
		want++
		dm := cm.docs[di]
		row := rows[dm.id]
		if row == nil {
			return hx.Failf("C19/docs/missing/"+phase, "node %d, active version v%d %s: document %s (k=%d, written under versions %v) is not returned by %s", ns.idx, nc.active, w.verDesc(ci, nc.active), dm.id, dm.k, versList(d.vers), q)
		}
		if del, _ := row["_deleted"].(bool); del != d.del {
			return hx.Failf("C19/docs/deleted-flag/"+phase, "node %d: document %s has _deleted=%v, expected %v", ns.idx, dm.id, del, d.del)
		}
		if dm.fuzzy {
			continue
		}
		for _, f := range av.fields {
			if dm.taint[f.N] {
				continue
			}
			exp := d.vals[f.N]
			got := row[f.N]
			if hx.CanonValue(exp) != hx.CanonValue(got) {
				cls := "value-changed"
				if exp == nil {
					cls = "unwritten-field-not-null"
				} else if got == nil {
					cls = "value-lost"
				}
				return hx.Failf("C19/"+cls+"/"+phase, "node %d, active version v%d %s: document %s (k=%d) field %s (%s) reads %s, expected %s", ns.idx, nc.active, w.verDesc(ci, nc.active), dm.id, dm.k, f.N, f.K, hx.CanonValue(got), hx.CanonValue(exp))
			}
		}
	}
	if len(rows) != want {
		return hx.Failf("C19/docs/extra/"+phase, "node %d: %s returns %d documents, %d exist on this node", ns.idx, q, len(rows), want)
	}
	return nil
}

func versList(m map[int]bool) []int {
	var out []int
	for v := range m {
		out = append(out, v)
	}
	sort.Ints(out)
	return out
}

// checkCommits compares the commit listing of a document with what was recorded before.
// equal: the operation was a patch or a switch (nothing may change); otherwise the old
// listing must be contained in the new one (history only grows).
func (w *world) checkCommits(ns *nodeState, ci, di int, equal bool, phase string) *hx.Failure {
	return w.checkCommitsW(ns, ci, di, equal, false, phase)
}

func (w *world) checkCommitsW(ns *nodeState, ci, di int, equal, localWrite bool, phase string) *hx.Failure {
	cm, nc := w.cols[ci], ns.cols[ci]
	d := nc.docs[di]
	if !d.has {
		return nil
	}
	for v := range d.vers {
		if !nc.known[v] {
			// a commit written under a version this node does not know: the listing may fail to resolve it
			w.info.flag("commit-listing-skipped-on-lagging-node")
			d.commitsInit = false // the recording is stale once listings were skipped
			return nil
		}
	}
	dm := cm.docs[di]
	q := fmt.Sprintf(`query { commits(docID: %q) { cid height fieldName schemaVersionId } }`, dm.id)
	r := ns.n.Exec(q)
	if !r.OK() {
		return hx.Failf("C19/commits-unreadable/"+phase, "node %d, active version v%d %s: %s failed for a document written under versions %v: %v %s", ns.idx, nc.active, w.verDesc(ci, nc.active), q, versList(d.vers), r.Errors, r.Panic)
	}
	now := map[string]string{}
	for _, row := range r.Rows("commits") {
		c, _ := row["cid"].(string)
		now[c] = hx.Canon(row)
	}
	if len(now) == 0 {
		return hx.Failf("C19/commits-lost/"+phase, "node %d: %s returns no commits", ns.idx, q)
	}
	if d.commitsInit {
		for c, was := range d.commits {
			is, ok := now[c]
			if !ok {
				return hx.Failf("C19/commits-lost/"+phase, "node %d, active version v%d %s: commit %s of document %s was listed before and is not listed now (%d before, %d now)", ns.idx, nc.active, w.verDesc(ci, nc.active), c, dm.id, len(d.commits), len(now))
			}
			if is != was {
				return hx.Failf("C19/commits-changed/"+phase, "node %d, active version v%d %s: commit of document %s was listed as %s and is now listed as %s", ns.idx, nc.active, w.verDesc(ci, nc.active), dm.id, was, is)
			}
		}
		if equal && len(now) != len(d.commits) {
			return hx.Failf("C19/commits-added/"+phase, "node %d: document %s has %d commits after a schema operation, %d before", ns.idx, dm.id, len(now), len(d.commits))
		}
	}
	if localWrite && (d.commitsInit || phase == "after-create") {
		// commits produced by a local write carry the version that was active when it was written
		wantVer := cm.vers[nc.active].id
		for c, row := range now {
			if _, old := d.commits[c]; old {
				continue
			}
			var m map[string]any
			_ = json.Unmarshal([]byte(row), &m)
			if got, _ := m["schemaVersionId"].(string); got != wantVer {
				return hx.Failf("C19/commit-version/"+phase, "node %d: commit %s written while v%d (%s) was active records schema version %s", ns.idx, row, nc.active, wantVer, got)
			}
		}
	}
	d.commits, d.commitsInit = now, true
	return nil
}

// checkUnknownField: selecting a field that exists in another version but not in the active one fails cleanly.
func (w *world) checkUnknownField(ns *nodeState, ci int, kind string) *hx.Failure {
	cm, nc := w.cols[ci], ns.cols[ci]
	av := cm.vers[nc.active]
	name := ""
	for vi, v := range cm.vers {
		if !nc.known[vi] {
			continue
		}
		for _, f := range v.fields {
			if !av.has(f.N) && (name == "" || f.N < name) {
				name = f.N
			}
		}
	}
	if name == "" {
		return nil
	}
	q := fmt.Sprintf(`query { %s { _docID %s } }`, cm.name, name)
	r := ns.n.Exec(q)
	if r.Panic != "" {
		return hx.Failf("C19/unknown-field/panic", "node %d: %s panicked: %s", ns.idx, q, r.Panic)
	}
	if r.OK() {
		return hx.Failf("C19/unknown-field/answered/after-"+kind, "node %d, active version v%d %s: %s selects a field the active version does not have and was answered: %s", ns.idx, nc.active, w.verDesc(ci, nc.active), q, hx.Canon(r.Data))
	}
	w.info.flag("unknown-field-query-rejected")
	return nil
}

func filterable(k string) bool {
	switch k {
	case "Int", "String", "Float", "Boolean", "DateTime", "pn", "pc", "pf":
		return true
	}
	return false
}

// checkNullFilter: documents that never received a value for an added field are found by a null filter on it
// (and only those), whatever version they were written under.
func (w *world) checkNullFilter(ns *nodeState, ci int, phase string) *hx.Failure {
	cm, nc := w.cols[ci], ns.cols[ci]
	av := cm.vers[nc.active]
	for i := len(av.fields) - 1; i >= 1; i-- {
		f := av.fields[i]
		if !strings.HasPrefix(f.N, "p") || !filterable(f.K) {
			continue
		}
		q := fmt.Sprintf(`query { %s(showDeleted: true, filter: {%s: {_eq: null}}) { _docID } }`, cm.name, f.N)
		r := ns.n.Exec(q)
		if !r.OK() {
			return hx.Failf("C19/null-filter-failed/"+phase, "node %d, active version v%d %s: %s failed: %v %s", ns.idx, nc.active, w.verDesc(ci, nc.active), q, r.Errors, r.Panic)
		}
		got := map[string]bool{}
		for _, row := range r.Rows(cm.name) {
			id, _ := row["_docID"].(string)
			got[id] = true
		}
		for di, d := range nc.docs {
			dm := cm.docs[di]
			if !d.has || dm.fuzzy || dm.taint[f.N] {
				continue
			}
			want := d.vals[f.N] == nil
			if got[dm.id] != want {
				return hx.Failf("C19/null-filter/"+phase, "node %d, active version v%d %s: %s returned=%v for document %s (k=%d, written under versions %v) whose %s is %s", ns.idx, nc.active, w.verDesc(ci, nc.active), q, got[dm.id], dm.id, dm.k, versList(d.vers), f.N, hx.CanonValue(d.vals[f.N]))
			}
		}
		w.info.flag("null-filter-on-added-field")
		return nil // one field per check keeps the cost down
	}
	return nil
}

func simpleKind(k string) bool {
	switch k {
	case "Int", "String", "Float", "Boolean", "pn", "pc", "pf":
		return true
	}
	return false
}

// checkCollectionGet reads every document through the collection API of the active version.
func (w *world) checkCollectionGet(ns *nodeState, ci int, phase string) *hx.Failure {
	cm, nc := w.cols[ci], ns.cols[ci]
	av := cm.vers[nc.active]
	col, err := ns.n.DB.GetCollectionByName(ns.n.Ctx, cm.name)
	if err != nil {
		return hx.Failf("C19/desc/by-name-error/"+phase, "node %d: GetCollectionByName(%s): %v", ns.idx, cm.name, err)
	}
	for di, d := range nc.docs {
		if !d.has {
			continue
		}
		dm := cm.docs[di]
		id, err := client.NewDocIDFromString(dm.id)
		if err != nil {
			hx.Harnessf("bad doc id %s: %v", dm.id, err)
		}
		doc, err := col.Get(ns.n.Ctx, id, true)
		if err != nil {
			return hx.Failf("C19/collection-get-failed/"+phase, "node %d, active version v%d %s: collection.Get(%s) (k=%d, written under versions %v): %v", ns.idx, nc.active, w.verDesc(ci, nc.active), dm.id, dm.k, versList(d.vers), err)
		}
		if dm.fuzzy {
			continue
		}
		m, err := doc.ToMap()
		if err != nil {
			return hx.Failf("C19/collection-get-failed/"+phase, "node %d: ToMap of %s: %v", ns.idx, dm.id, err)
		}
		for _, f := range av.fields {
			if !simpleKind(f.K) || dm.taint[f.N] {
				continue
			}
			if f.D && d.vals[f.N] == nil {
				// the document layer re-applies @default over a stored explicit null (client.NewDocFromMap
				// setDefaultValues) whereas queries return null; unrelated to schema evolution, not compared
				continue
			}
			got := hx.Normalize(m[f.N])
			if hx.CanonValue(got) != hx.CanonValue(d.vals[f.N]) {
				return hx.Failf("C19/collection-get-value/"+phase, "node %d, active version v%d %s: collection.Get(%s).%s (%s) is %s, expected %s", ns.idx, nc.active, w.verDesc(ci, nc.active), dm.id, f.N, f.K, hx.CanonValue(got), hx.CanonValue(d.vals[f.N]))
			}
		}
	}
	return nil
}
