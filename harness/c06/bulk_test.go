package c06

import (
	"context"
	"encoding/json"
	"fmt"
	"os"
	"strconv"
	"strings"
	"sync/atomic"
	"testing"
	"time"

	"pgregory.net/rapid"

	"github.com/sourcenetwork/defradb/client"
	"github.com/sourcenetwork/defradb/internal/db"
	"github.com/sourcenetwork/defradb/verifharness/hx"
)

// BulkCase is one batch creation inside an explicit transaction: the isolation clauses of the property
// for a write of N documents made by ONE call (sizes around the powers and round numbers at which an
// implementation might split a batch).
type BulkCase struct {
	Bulk bool `json:"bulk"` // marks the case kind in replay files
	N    int  `json:"n"`
	Pre  int  `json:"pre"` // documents committed before the transaction starts
	// Route: 0 Collection.CreateMany with the transaction on the context, 1 txn-bound GraphQL request with list
	// input, 2 db.ExecRequest with the transaction on the context
	Route int `json:"route"`
	// Concurrent: obtained with NewConcurrentTxn
	Concurrent bool `json:"concurrent,omitempty"`
	Commit     bool `json:"commit"`
	// Other: a second transaction is opened before the batch is written (0 none, 1 read-write, 2 read-only)
	Other int `json:"other,omitempty"`
}

var bulkSizes = []int{1, 2, 17, 100, 255, 256, 257, 999, 1000, 1001, 1003, 1024, 1025, 2049, 4100}

func drawBulk(t *rapid.T) BulkCase {
	c := BulkCase{Bulk: true}
	c.N = rapid.SampledFrom(bulkSizes).Draw(t, "n")
	if !hx.Thorough() && c.N > 1025 {
		c.N = 1003
	}
	c.Pre = rapid.IntRange(0, 3).Draw(t, "pre")
	c.Route = rapid.IntRange(0, 2).Draw(t, "route")
	c.Concurrent = rapid.IntRange(0, 3).Draw(t, "concurrent") == 0
	c.Commit = rapid.IntRange(0, 2).Draw(t, "commit") > 0
	c.Other = rapid.IntRange(0, 2).Draw(t, "other")
	return c
}

func countVia(ctx context.Context, store interface {
	ExecRequest(ctx context.Context, request string, opts ...client.RequestOption) *client.RequestResult
}) (int, string) {
	r := hx.ExecOn(ctx, store, `query { Users { _docID } }`)
	if !r.OK() {
		return -1, fmt.Sprint(r.Errors, r.Panic)
	}
	return len(r.Rows("Users")), ""
}

// errBulkHung marks a case whose batch call did not return within bulkCallDeadline: no verdict (time is not
// an oracle), the node is abandoned, the phase goes on with other cases.
var errBulkHung = &hx.Failure{Sig: "C06/bulk/inconclusive-call-did-not-return"}

var bulkCallDeadline = func() time.Duration {
	if s, err := strconv.Atoi(os.Getenv("VERIF_BULK_DEADLINE_S")); err == nil && s > 0 {
		return time.Duration(s) * time.Second
	}
	return 3 * time.Minute
}()

func runBulk(c BulkCase) (fail *hx.Failure) {
	n := hx.MustMemNode()
	defer func() {
		if fail != errBulkHung {
			n.Close()
		}
	}()
	if _, err := n.DB.AddSchema(n.Ctx, "type Users { name: String  age: Int @index }"); err != nil {
		hx.Harnessf("schema: %v", err)
	}
	col, err := n.DB.GetCollectionByName(n.Ctx, "Users")
	if err != nil {
		hx.Harnessf("collection: %v", err)
	}
	for i := 0; i < c.Pre; i++ {
		r := n.Exec(fmt.Sprintf(`mutation { create_Users(input: {name: "pre%d", age: %d}) { _docID } }`, i, i))
		if !r.OK() {
			hx.Harnessf("pre-existing document: %v", r.Errors)
		}
	}
	var other client.Txn
	if c.Other > 0 {
		other, err = n.DB.NewTxn(n.Ctx, c.Other == 2)
		if err != nil {
			hx.Harnessf("NewTxn: %v", err)
		}
		defer other.Discard(n.Ctx)
	}
	var txn client.Txn
	if c.Concurrent {
		txn, err = n.DB.NewConcurrentTxn(n.Ctx, false)
	} else {
		txn, err = n.DB.NewTxn(n.Ctx, false)
	}
	if err != nil {
		hx.Harnessf("NewTxn: %v", err)
	}
	tctx := db.InitContext(n.Ctx, txn)
	what := fmt.Sprintf("one call creating %d documents inside an explicit transaction (route %d, %d committed before)", c.N, c.Route, c.Pre)

	// the batch (in a goroutine of its own: a call that never returns must not take the whole check with it)
	batch := func() *hx.Failure {
		switch c.Route {
		case 0:
			docs := make([]*client.Document, 0, c.N)
			for i := 0; i < c.N; i++ {
				d, err := client.NewDocFromJSON([]byte(fmt.Sprintf(`{"name": "b%d", "age": %d}`, i, i%50)), col.Definition())
				if err != nil {
					hx.Harnessf("doc: %v", err)
				}
				docs = append(docs, d)
			}
			if err := col.CreateMany(tctx, docs); err != nil {
				txn.Discard(n.Ctx)
				return hx.Failf("C06/bulk/create-error", "%s: CreateMany failed: %v", what, err)
			}
		default:
			var sb strings.Builder
			for i := 0; i < c.N; i++ {
				if i > 0 {
					sb.WriteString(", ")
				}
				fmt.Fprintf(&sb, `{name: "b%d", age: %d}`, i, i%50)
			}
			q := "mutation { create_Users(input: [" + sb.String() + "]) { _docID } }"
			var r hx.Result
			if c.Route == 1 {
				r = hx.ExecOn(n.Ctx, txn, q)
			} else {
				r = hx.ExecOn(tctx, n.DB, q)
			}
			if !r.OK() {
				txn.Discard(n.Ctx)
				return hx.Failf("C06/bulk/create-error", "%s: the mutation failed: %v %s", what, r.Errors, r.Panic)
			}
			if got := len(r.Rows("create_Users")); got != c.N {
				txn.Discard(n.Ctx)
				return hx.Failf("C06/bulk/result-rows", "%s: the mutation returned %d rows", what, got)
			}
		}
		return nil
	}
	done := make(chan *hx.Failure, 1)
	go func() {
		defer func() {
			if p := recover(); p != nil {
				if he, ok := p.(hx.HarnessError); ok {
					done <- &hx.Failure{Sig: "harness", Msg: string(he)}
					return
				}
				done <- hx.Failf("C06/bulk/panic", "%s: panic: %v", what, p)
			}
		}()
		done <- batch()
	}()
	select {
	case f := <-done:
		if f != nil && f.Sig == "harness" {
			panic(hx.HarnessError(f.Msg))
		}
		if f != nil {
			return f
		}
	case <-time.After(bulkCallDeadline):
		return errBulkHung
	}

	// inside: own writes; outside and in the other transaction: nothing yet
	if got, e := countVia(n.Ctx, txn); got != c.Pre+c.N {
		txn.Discard(n.Ctx)
		return hx.Failf("C06/bulk/own-writes", "%s: the transaction itself sees %d documents (%s), expected %d", what, got, e, c.Pre+c.N)
	}
	if got, e := countVia(n.Ctx, n.DB); got != c.Pre {
		txn.Discard(n.Ctx)
		return hx.Failf("C06/bulk/visible-before-commit", "%s: a call outside any transaction sees %d documents (%s) before the commit, expected %d", what, got, e, c.Pre)
	}
	if other != nil {
		if got, e := countVia(n.Ctx, other); got != c.Pre {
			txn.Discard(n.Ctx)
			return hx.Failf("C06/bulk/visible-to-other-transaction", "%s: a transaction opened before sees %d documents (%s) before the commit, expected %d", what, got, e, c.Pre)
		}
	}
	want := c.Pre
	if c.Commit {
		if err := txn.Commit(n.Ctx); err != nil {
			return hx.Failf("C06/bulk/commit-error", "%s: commit failed although nothing else wrote: %v", what, err)
		}
		want = c.Pre + c.N
	} else {
		txn.Discard(n.Ctx)
	}
	if got, e := countVia(n.Ctx, n.DB); got != want {
		return hx.Failf("C06/bulk/after-end", "%s, then %s: %d documents (%s), expected %d", what, map[bool]string{true: "commit", false: "discard"}[c.Commit], got, e, want)
	}
	// through the index as well
	r := n.Exec(`query { Users(filter: {age: {_ge: 0}}) { _docID } }`)
	if !r.OK() || len(r.Rows("Users")) != want {
		return hx.Failf("C06/bulk/after-end-through-index", "%s, then %s: the index-served listing returns %d documents (%v), expected %d", what, map[bool]string{true: "commit", false: "discard"}[c.Commit], len(r.Rows("Users")), r.Errors, want)
	}
	if other != nil {
		// snapshot: the transaction opened before still sees the state as of its start
		if got, e := countVia(n.Ctx, other); got != c.Pre {
			return hx.Failf("C06/bulk/snapshot-moved", "%s: a transaction opened before sees %d documents (%s) after the end of the writer, expected its snapshot of %d", what, got, e, c.Pre)
		}
	}
	return nil
}

// bulkFailed: a case of this phase failed in this process. The phase does not shrink (a case has seven small
// parameters and costs seconds; on a tree that breaks the property a shrink attempt can meet a call that never
// returns): every attempt after the first failure is skipped, so rapid reports the case that actually ran.
var bulkFailed atomic.Bool

func evaluateBulk(t *rapid.T, c BulkCase) {
	if bulkFailed.Load() {
		t.Skip("a failure of this phase was already recorded; the phase does not shrink")
	}
	f := hx.Guard("C06", func() *hx.Failure { return runBulk(c) })
	if f == errBulkHung {
		rec.Label("bulk:call-did-not-return-within-deadline")
		t.Skip("the batch call did not return within the deadline: no verdict for this case")
	}
	if f != nil {
		bulkFailed.Store(true)
	}
	labels := []string{"bulk", fmt.Sprintf("bulk:route-%d", c.Route), map[bool]string{true: "bulk:commit", false: "bulk:discard"}[c.Commit]}
	switch {
	case c.N > 1000:
		labels = append(labels, "bulk:more-than-1000-documents")
	case c.N >= 100:
		labels = append(labels, "bulk:100-1000-documents")
	}
	if c.Other > 0 {
		labels = append(labels, "bulk:other-transaction-open")
	}
	rec.Eval(c, c.N >= 100, labels...)
	rec.Check(t, c, f)
}

// TestC06Bulk: one batch creation of a drawn size inside an explicit transaction, observed from inside, from outside
// and from a transaction opened before, then committed or discarded.
func TestC06Bulk(t *testing.T) {
	rapid.Check(t, func(t *rapid.T) { evaluateBulk(t, drawBulk(t)) })
}

func asBulk(raw []byte) (BulkCase, bool) {
	var c BulkCase
	if err := json.Unmarshal(raw, &c); err != nil || !c.Bulk {
		return c, false
	}
	return c, true
}
