package c06

import (
	"context"
	"encoding/json"
	"errors"
	"fmt"
	"runtime/debug"
	"sort"
	"strconv"
	"strings"

	"github.com/sourcenetwork/corekv"

	"github.com/sourcenetwork/defradb/client"
	"github.com/sourcenetwork/defradb/internal/db"
	"github.com/sourcenetwork/defradb/verifharness/hx"
)

const sdl = `type Users { name: String  age: Int  tag: String }`

// ---------------------------------------------------------------------------------------------
// reference model

const (
	absent  = 0
	live    = 1
	deleted = 2
)

type mdoc struct {
	st  int
	age int
	tag int
}

// mstate is a database state as the model sees it: the documents of the pool and the
// secondary indexes (indexed field → unique).
type mstate struct {
	docs []mdoc
	idx  map[string]bool
}

func (s mstate) clone() mstate {
	out := mstate{docs: append([]mdoc(nil), s.docs...), idx: map[string]bool{}}
	for k, v := range s.idx {
		out.idx[k] = v
	}
	return out
}

func (s *mstate) uniqueTag() bool { return s.idx["tag"] }

// tagTaken reports whether a live document other than d carries the tag.
func (s *mstate) tagTaken(d, tag int) bool {
	for j, x := range s.docs {
		if j != d && x.st == live && x.tag == tag {
			return true
		}
	}
	return false
}

func (s *mstate) hasDuplicateTags() bool {
	seen := map[int]bool{}
	for _, x := range s.docs {
		if x.st != live {
			continue
		}
		if seen[x.tag] {
			return true
		}
		seen[x.tag] = true
	}
	return false
}

func (s *mstate) indexNames() string {
	out := []string{}
	for f, u := range s.idx {
		n := "ix_" + f
		if u {
			n += "!"
		}
		out = append(out, n)
	}
	sort.Strings(out)
	return strings.Join(out, ",")
}

// expectation of a mutation against a view
type expectation struct {
	apply    bool   // the operation must take effect; otherwise it must fail or do nothing, with no effect
	why      string // reason for !apply
	definite bool   // the operation certainly changes stored data of the document (demands a conflict)
	res      []string
}

func expect(v *mstate, st Step, init []DocInit, readOnly bool) expectation {
	if readOnly {
		return expectation{why: "read-only transaction"}
	}
	d := st.D
	switch st.K {
	case "create":
		if v.docs[d].st == live {
			return expectation{why: "document exists"}
		}
		if v.docs[d].st == deleted {
			return expectation{why: "document was deleted"}
		}
		if v.uniqueTag() && v.tagTaken(d, init[d].Tag) {
			return expectation{why: "unique tag taken"}
		}
		e := expectation{apply: true, definite: true}
		if v.uniqueTag() {
			e.res = append(e.res, "u:"+tagPool[init[d].Tag])
		}
		return e
	case "update":
		if v.docs[d].st != live {
			return expectation{why: "document not live"}
		}
		if st.F == "tag" {
			if v.uniqueTag() && v.tagTaken(d, st.V) {
				return expectation{why: "unique tag taken"}
			}
			e := expectation{apply: true, definite: v.docs[d].tag != st.V}
			if v.uniqueTag() && e.definite {
				e.res = append(e.res, "u:"+tagPool[st.V])
			}
			return e
		}
		return expectation{apply: true, definite: v.docs[d].age != st.V}
	case "delete":
		if v.docs[d].st != live {
			return expectation{why: "document not live"}
		}
		return expectation{apply: true, definite: true}
	case "mkindex":
		if _, ok := v.idx[st.F]; ok {
			return expectation{why: "index exists"}
		}
		if st.F == "tag" && st.U && v.hasDuplicateTags() {
			return expectation{why: "duplicate tags"}
		}
		return expectation{apply: true, definite: true, res: []string{"ddl"}}
	case "rmindex":
		if _, ok := v.idx[st.F]; !ok {
			return expectation{why: "no such index"}
		}
		return expectation{apply: true, definite: true, res: []string{"ddl"}}
	}
	hx.Harnessf("expect: not a mutation: %q", st.K)
	return expectation{}
}

func applyTo(v *mstate, st Step, init []DocInit) {
	d := st.D
	switch st.K {
	case "create":
		v.docs[d] = mdoc{st: live, age: init[d].Age, tag: init[d].Tag}
	case "update":
		if st.F == "tag" {
			v.docs[d].tag = st.V
		} else {
			v.docs[d].age = st.V
		}
	case "delete":
		v.docs[d].st = deleted
	case "mkindex":
		v.idx[st.F] = st.F == "tag" && st.U
	case "rmindex":
		delete(v.idx, st.F)
	}
}

// ---------------------------------------------------------------------------------------------
// environment

type expEvent struct {
	id       string
	optional bool
}

type actor struct {
	id         int
	txn        client.Txn
	begun      bool
	ended      bool
	ro         bool
	beginClock int
	endClock   int
	snap       mstate
	view       mstate
	mkidx      map[string]bool
	wrote      map[int]bool // definite document writes
	touched    map[int]bool // every applied document mutation (definite or not)
	res        map[string]bool
	ddl        bool
	events     []expEvent
	// document objects this transaction passed to Collection.Update/Save (they stay dirty until the commit succeeds)
	objs []stashedDoc
}

// stashedDoc is a document object that was written through the collection API inside a transaction.
type stashedDoc struct {
	d   int
	f   string
	v   int
	doc *client.Document
	// age, tag: what the object holds in its other (clean) fields - the transaction's view when it was fetched
	age, tag int
	seen     bool
}

type commitRec struct {
	begin   int // clock at which the writer's snapshot was taken (== clock for the no-transaction actor)
	clock   int
	actor   int
	docs    map[int]bool // definite document writes
	touched map[int]bool // every applied document mutation
	res     map[string]bool
	mkidx   map[string]bool // indexes created
}

type info struct {
	labels     map[string]bool
	nontrivial bool
}

type env struct {
	c      Case
	n      *hx.Node
	ctx    context.Context
	tap    *hx.EventTap
	ids    []string
	S      mstate
	actors map[int]*actor
	log    []commitRec
	raw    []hx.FaultKV
	// idxCreator: for every committed index, the commit that created it
	idxCreator map[string]commitRec
	inf        info
	clock      int
	trace      []string
	// failedObjs: per document, the object of the latest collection-API update whose transaction was discarded or
	// failed to commit; reuseDoc: the object the running step passes again instead of fetching the document
	failedObjs map[int]stashedDoc
	reuseDoc   *client.Document
	staleProbe string
	staleDoc   int
	// started: the drawn interleaving is running (the committed starting point is built)
	started bool
}

func (e *env) label(l string) { e.inf.labels[l] = true }

// Signatures of the listed findings that have a generator switch (see known_findings.d/C06.json).
const (
	sigCreateUniqueKeepsDoc   = "C06/failed-op-partial-effect/create-unique-violation-keeps-document"
	sigUpdateUniqueLosesKey   = "C06/failed-op-partial-effect/update-unique-violation-loses-index-entry"
	sigDeleteMissingDocPanic  = "C06/panic/collection.Delete-of-missing-document-with-index"
	sigIndexMissesConcurrent  = "C06/index-ddl-vs-concurrent-writer/index-misses-document"
	sigFailedMkindexKeepsDesc = "C06/failed-op-partial-effect/create-unique-index-violation-keeps-index-description"
	sigStaleObjectIndex       = "C06/index-corrupted/update-through-stale-document-object"
)

// avoid reports whether the case asks to stay clear of the trigger of a listed finding
// ("search past a defect"): only when the finding is listed as known.
func (e *env) avoid(sig string) bool { return e.c.Avoid && rec.IsKnown(sig) }

func (e *env) note(format string, args ...any) {
	e.trace = append(e.trace, fmt.Sprintf("[%d] ", e.clock)+fmt.Sprintf(format, args...))
}

func (e *env) history() string {
	t := e.trace
	if len(t) > 40 {
		t = t[len(t)-40:]
	}
	return "\nhistory:\n  " + strings.Join(t, "\n  ")
}

func (e *env) failf(sig, format string, args ...any) *hx.Failure {
	return hx.Failf(sig, format+"%s", append(args, e.history())...)
}

func docJSON(k int, d DocInit) string {
	return fmt.Sprintf(`{"name": "d%d", "age": %d, "tag": %q}`, k, d.Age, tagPool[d.Tag])
}

func routeName(a, r int) string {
	p := "txn:"
	if a == 0 {
		p = "notxn:"
	}
	switch r {
	case 0:
		if a == 0 {
			return p + "db.ExecRequest"
		}
		return p + "txn.ExecRequest"
	case 1:
		if a == 0 {
			return p + "db.ExecRequest"
		}
		return p + "db.ExecRequest+ctx"
	}
	return p + "collection"
}

func (e *env) actor(a int) *actor {
	ac := e.actors[a]
	if ac == nil {
		ac = &actor{id: a}
		e.actors[a] = ac
	}
	return ac
}

func (e *env) openTxns() int {
	n := 0
	for a, ac := range e.actors {
		if a != 0 && ac.begun && !ac.ended {
			n++
		}
	}
	return n
}

func (e *env) view(ac *actor) *mstate {
	if ac.id == 0 {
		return &e.S
	}
	return &ac.view
}

// callCtx is the context of one API call of the actor: the supported way to run a store or
// collection method under an explicit transaction is db.InitContext(ctx, txn).
func (e *env) callCtx(ac *actor) context.Context {
	if ac.id == 0 {
		return e.ctx
	}
	return db.InitContext(e.ctx, ac.txn)
}

func (e *env) gql(ac *actor, route int, q string) hx.Result {
	if ac.id == 0 {
		return e.n.Exec(q)
	}
	if route == 1 {
		return hx.ExecOn(e.callCtx(ac), e.n.DB, q)
	}
	return hx.ExecOn(e.ctx, ac.txn, q)
}

func (e *env) col(ac *actor) (client.Collection, error) {
	if ac.id == 0 {
		return e.n.DB.GetCollectionByName(e.ctx, "Users")
	}
	return ac.txn.GetCollectionByName(e.ctx, "Users")
}

// ---------------------------------------------------------------------------------------------
// running a case

func run(c Case) (*hx.Failure, info) {
	e := &env{c: c, ctx: context.Background(), actors: map[int]*actor{}, idxCreator: map[string]commitRec{}, inf: info{labels: map[string]bool{}}}
	if len(c.Docs) == 0 {
		return nil, e.inf
	}
	f := e.run()
	return f, e.inf
}

func (e *env) run() *hx.Failure {
	c := e.c
	e.n = hx.MustMemNode()
	defer e.n.Close()
	if _, err := e.n.DB.AddSchema(e.ctx, sdl); err != nil {
		hx.Harnessf("schema: %v", err)
	}
	col, err := e.n.DB.GetCollectionByName(e.ctx, "Users")
	if err != nil {
		hx.Harnessf("collection: %v", err)
	}
	for k, d := range c.Docs {
		if d.Tag < 0 || d.Tag >= len(tagPool) {
			hx.Harnessf("tag out of pool")
		}
		doc, err := client.NewDocFromJSON([]byte(docJSON(k, d)), col.Definition())
		if err != nil {
			hx.Harnessf("doc: %v", err)
		}
		e.ids = append(e.ids, doc.ID().String())
	}
	e.S = mstate{docs: make([]mdoc, len(c.Docs)), idx: map[string]bool{}}
	e.tap = hx.NewEventTap(e.n)
	defer e.tap.Close()
	e.snapshotRaw()

	// every transaction still open when the function returns (failure, panic) is discarded so
	// that closing the node never waits on it
	defer func() {
		for _, ac := range e.actors {
			if ac.txn != nil && ac.begun && !ac.ended {
				func() {
					defer func() { _ = recover() }()
					ac.txn.Discard(e.ctx)
				}()
			}
		}
	}()

	// the committed starting point, built by the no-transaction actor through the same oracle
	pre := []Step{}
	for k := range c.Docs {
		if k < len(c.Seed) && c.Seed[k] {
			pre = append(pre, Step{A: 0, K: "create", D: k, R: 2})
		}
	}
	switch c.Index {
	case "age":
		pre = append(pre, Step{A: 0, K: "mkindex", F: "age"})
	case "tag":
		pre = append(pre, Step{A: 0, K: "mkindex", F: "tag"})
	case "utag":
		pre = append(pre, Step{A: 0, K: "mkindex", F: "tag", U: true})
	}
	e.label("index:" + c.Index)
	for _, st := range pre {
		if f := e.doStep(st); f != nil {
			return f
		}
	}
	e.trace = append(e.trace, "---- interleaving starts")
	e.started = true
	for _, st := range c.Steps {
		if f := e.doStep(st); f != nil {
			return f
		}
	}
	// transactions left open are discarded (and must leave no trace)
	ids := []int{}
	for a, ac := range e.actors {
		if a != 0 && ac.begun && !ac.ended {
			ids = append(ids, a)
		}
	}
	sort.Ints(ids)
	for _, a := range ids {
		e.label("end:left-open")
		if f := e.doStep(Step{A: a, K: "discard"}); f != nil {
			return f
		}
	}
	e.finishLabels()
	return nil
}

func (e *env) snapshotRaw() {
	kvs, err := hx.FaultSnapshotOf(e.n.DB.Rootstore(), nil)
	if err != nil {
		hx.Harnessf("raw snapshot: %v", err)
	}
	e.raw = kvs
}

func normStep(st Step, ndocs int) Step {
	if st.D < 0 {
		st.D = -st.D
	}
	st.D %= ndocs
	if st.V < 0 {
		st.V = -st.V
	}
	if st.F == "tag" {
		st.V %= len(tagPool)
	}
	if st.F != "tag" && st.F != "age" {
		st.F = ""
	}
	if st.R < 0 || st.R > 2 {
		st.R = 0
	}
	switch st.K {
	case "update", "mkindex", "rmindex":
		if st.F == "" {
			st.F = "age"
		}
	}
	return st
}

func isMutation(k string) bool {
	switch k {
	case "create", "update", "delete", "mkindex", "rmindex":
		return true
	}
	return false
}

// doStep executes one step and then the per-step invariants: update events, raw store,
// what a reader outside every transaction sees.
func (e *env) doStep(st Step) *hx.Failure {
	st = normStep(st, len(e.c.Docs))
	e.clock++
	ac := e.actor(st.A)
	// what may legitimately change at this step
	storeMayChange := false
	var wantEvents []expEvent
	phase := st.K
	if st.A != 0 {
		phase += "-in-txn"
	}

	switch st.K {
	case "begin":
		if st.A == 0 || ac.begun {
			return nil
		}
		if f := e.begin(ac, st.U, st.C); f != nil {
			return f
		}
	case "commit":
		if st.A == 0 || !ac.begun || ac.ended {
			return nil
		}
		ok, f := e.commit(ac)
		if f != nil {
			return f
		}
		if ok {
			storeMayChange = true
			wantEvents = ac.events
			phase = "commit-ok"
		} else {
			phase = "commit-failed"
			e.keepFailedObjs(ac)
		}
	case "discard":
		if st.A == 0 || !ac.begun || ac.ended {
			return nil
		}
		e.note("T%d discard", ac.id)
		ac.txn.Discard(e.ctx)
		ac.ended = true
		ac.endClock = e.clock
		e.label("end:discard")
		phase = "discard"
		e.keepFailedObjs(ac)
	case "create", "update", "delete", "mkindex", "rmindex":
		if st.K == "update" && st.Reuse && st.A == 0 {
			if o, ok := e.failedObjs[st.D]; ok {
				// outside any transaction, retry the update whose transaction did not commit, with the same object
				delete(e.failedObjs, st.D)
				// stale: an indexed field the retry does not write has changed since the object was fetched
				cur := e.view(ac).docs[st.D]
				staleField, staleVal := "", ""
				if o.f != "age" && e.view(ac).idx != nil {
					if _, ix := e.view(ac).idx["age"]; ix && cur.age != o.age {
						staleField, staleVal = "age", strconv.Itoa(cur.age)
					}
				}
				if o.f != "tag" {
					if _, ix := e.view(ac).idx["tag"]; ix && cur.tag != o.tag {
						staleField, staleVal = "tag", strconv.Quote(tagPool[cur.tag])
					}
				}
				if staleField != "" && e.avoid(sigStaleObjectIndex) {
					e.label("avoided:retry-with-stale-object-on-indexed-field")
				} else {
					st.R, st.F, st.V = 2, o.f, o.v
					e.reuseDoc = o.doc
					e.label("retry-with-the-document-object-of-a-failed-transaction")
					if staleField != "" && cur.st == live {
						e.staleProbe = fmt.Sprintf(`query { Users(filter: {%s: {_eq: %s}}) { _docID } }`, staleField, staleVal)
						e.staleDoc = st.D
					}
				}
			}
		}
		if st.A != 0 {
			if ac.ended {
				return nil
			}
			if !ac.begun {
				if f := e.begin(ac, false, false); f != nil {
					return f
				}
			}
		}
		applied, f := e.mutation(ac, st)
		if f != nil {
			return f
		}
		if probe := e.staleProbe; probe != "" {
			e.staleProbe = ""
			if applied {
				// diagnoser of the listed finding: the index now files the document under the stale value of the object,
				// so a read served by that index no longer finds it under its real value
				r := e.n.Exec(probe)
				found := false
				for _, row := range r.Rows("Users") {
					found = found || row["_docID"] == e.ids[e.staleDoc]
				}
				if r.OK() && !found {
					return e.failf(sigStaleObjectIndex, "an update through a document object fetched earlier (its transaction did not commit) rewrote the index entry of a field the update does not touch with the object's stale value: %s no longer returns d%d (%s)", probe, e.staleDoc, e.render(e.view(ac)))
				}
			}
		}
		if st.A == 0 {
			// an implicit transaction: commits (or rolls back) inside the call
			storeMayChange = true
			if applied && !strings.HasSuffix(st.K, "index") {
				wantEvents = []expEvent{{id: e.ids[st.D]}}
			}
		}
	case "get", "list", "count", "indexes", "docids", "exists":
		if st.A != 0 {
			if ac.ended {
				return nil
			}
			if !ac.begun {
				if f := e.begin(ac, false, false); f != nil {
					return f
				}
			}
		}
		if f := e.read(ac, st); f != nil {
			return f
		}
	default:
		hx.Harnessf("unknown step kind %q", st.K)
	}

	// 1. update events: only at a successful commit (or a successful non-transactional mutation)
	evs := e.tap.Take()
	got := make([]string, len(evs))
	for i, u := range evs {
		got[i] = u.DocID
	}
	if !matchEvents(wantEvents, got) {
		cause := "mismatch-at-" + phase
		if len(wantEvents) == 0 {
			cause = "unexpected-at-" + phase
		}
		return e.failf("C06/update-events/"+cause, "update events after step %+v: got %v, want %s", st, e.short(got), e.renderEvents(wantEvents))
	}

	// 2. raw store: changes only at a successful commit / non-transactional mutation
	before := e.raw
	e.snapshotRaw()
	if !storeMayChange {
		if diff := hx.FaultDiffKV(before, e.raw, 12); diff != "" {
			return e.failf("C06/raw-store-changed/at-"+phase, "the raw store changed at step %+v (nothing was committed):\n%s", st, diff)
		}
	}

	// 3. a reader outside every transaction sees exactly the committed state (a read inside a
	// transaction is followed by the raw-store and event checks only)
	switch st.K {
	case "get", "list", "count", "indexes", "docids", "exists":
		if st.A != 0 {
			return nil
		}
	}
	return e.outside(st, phase)
}

func (e *env) short(ids []string) []string {
	out := make([]string, len(ids))
	for i, id := range ids {
		out[i] = e.docName(id)
	}
	return out
}

func (e *env) docName(id string) string {
	for k, x := range e.ids {
		if x == id {
			return fmt.Sprintf("d%d", k)
		}
	}
	return id
}

func (e *env) renderEvents(w []expEvent) string {
	out := []string{}
	for _, x := range w {
		s := e.docName(x.id)
		if x.optional {
			s += "?"
		}
		out = append(out, s)
	}
	return "[" + strings.Join(out, " ") + "]"
}

// matchEvents: got must be want in order, optional elements may be missing.
func matchEvents(want []expEvent, got []string) bool {
	if len(want) == 0 {
		return len(got) == 0
	}
	if len(got) > 0 && want[0].id == got[0] && matchEvents(want[1:], got[1:]) {
		return true
	}
	if want[0].optional {
		return matchEvents(want[1:], got)
	}
	return false
}

func (e *env) begin(ac *actor, readOnly, concurrent bool) *hx.Failure {
	var txn client.Txn
	var err error
	if concurrent {
		txn, err = e.n.DB.NewConcurrentTxn(e.ctx, readOnly)
		e.label("begin:NewConcurrentTxn")
	} else {
		txn, err = e.n.DB.NewTxn(e.ctx, readOnly)
		e.label("begin:NewTxn")
	}
	if err != nil {
		return e.failf("C06/begin-error", "NewTxn(readOnly=%v): %v", readOnly, err)
	}
	ac.txn = txn
	ac.begun = true
	ac.ro = readOnly
	ac.beginClock = e.clock
	ac.snap = e.S.clone()
	ac.view = e.S.clone()
	ac.wrote = map[int]bool{}
	ac.touched = map[int]bool{}
	ac.res = map[string]bool{}
	ac.mkidx = map[string]bool{}
	e.note("T%d begin readOnly=%v", ac.id, readOnly)
	if readOnly {
		e.label("readonly-txn")
	}
	return nil
}

// commit returns whether the commit succeeded.
func (e *env) commit(ac *actor) (bool, *hx.Failure) {
	err := ac.txn.Commit(e.ctx)
	ac.ended = true
	ac.endClock = e.clock
	// writers that committed while this transaction was open
	overl := 0
	must := ""
	for _, r := range e.log {
		if r.clock <= ac.beginClock {
			continue
		}
		overl++
		for d := range r.docs {
			if ac.wrote[d] && must == "" {
				must = fmt.Sprintf("same-document: d%d was also written by %s at [%d]", d, actorName(r.actor), r.clock)
			}
		}
		for x := range r.res {
			if ac.res[x] && must == "" {
				must = fmt.Sprintf("same-resource %s: also written by %s at [%d]", x, actorName(r.actor), r.clock)
			}
		}
	}
	hasWrites := len(ac.touched) > 0 || ac.ddl
	if err != nil {
		e.note("T%d commit → %v", ac.id, err)
		ac.txn.Discard(e.ctx)
		if !errors.Is(err, corekv.ErrTxnConflict) {
			return false, e.failf("C06/commit-error-not-conflict", "commit of T%d failed with %q, which is not corekv.ErrTxnConflict", ac.id, err)
		}
		if overl == 0 {
			return false, e.failf("C06/commit-conflict-without-overlapping-writer",
				"commit of T%d failed with a conflict although nothing was committed by anyone since it began at [%d]", ac.id, ac.beginClock)
		}
		e.label("end:commit-conflict")
		if must != "" {
			e.label("conflict:demanded-and-reported")
		} else {
			e.label("conflict:allowed-only(read validation)")
		}
		return false, nil
	}
	e.note("T%d commit ok", ac.id)
	if must != "" {
		what := "same-document"
		if strings.HasPrefix(must, "same-resource u:") {
			what = "same-unique-value"
		} else if strings.HasPrefix(must, "same-resource ddl") {
			what = "index-ddl"
		}
		return false, e.failf("C06/lost-update/"+what,
			"commit of T%d (began at [%d]) succeeded although an overlapping writer had committed a change to the %s", ac.id, ac.beginClock, must)
	}
	e.label("end:commit-ok")
	if hasWrites {
		if overl > 0 {
			e.label("commit-ok-with-overlapping-writer(disjoint)")
		}
		for d := range ac.touched {
			e.S.docs[d] = ac.view.docs[d]
		}
		if ac.ddl {
			e.S.idx = ac.view.clone().idx
		}
		r := commitRec{begin: ac.beginClock, clock: e.clock, actor: ac.id, docs: map[int]bool{}, touched: map[int]bool{}, res: map[string]bool{}, mkidx: map[string]bool{}}
		for d := range ac.wrote {
			r.docs[d] = true
		}
		for d := range ac.touched {
			r.touched[d] = true
		}
		for x := range ac.res {
			r.res[x] = true
		}
		for f := range ac.mkidx {
			if _, ok := e.S.idx[f]; ok {
				r.mkidx[f] = true
				e.idxCreator[f] = r
			}
		}
		e.log = append(e.log, r)
	}
	return true, nil
}

func actorName(a int) string {
	if a == 0 {
		return "the no-transaction actor"
	}
	return fmt.Sprintf("T%d", a)
}

// ---------------------------------------------------------------------------------------------
// mutations

type outcome struct {
	kind string // applied | noop | error
	err  string
	row  map[string]any
}

// keepFailedObjs remembers the document objects of a transaction that ended without committing.
func (e *env) keepFailedObjs(ac *actor) {
	if e.failedObjs == nil {
		e.failedObjs = map[int]stashedDoc{}
	}
	for _, o := range ac.objs {
		e.failedObjs[o.d] = o
	}
	ac.objs = nil
}

func (e *env) mutation(ac *actor, st Step) (bool, *hx.Failure) {
	v := e.view(ac)
	exp := expect(v, st, e.c.Docs, ac.ro)
	if e.reuseDoc != nil && !exp.apply {
		// the document is not there (any more) or the write is refused: the ordinary path says how
		e.reuseDoc = nil
	}
	defer func() { e.reuseDoc = nil }()
	route := routeName(st.A, st.R)
	if strings.HasSuffix(st.K, "index") {
		route = routeName(st.A, 2)
	}
	if ac.id != 0 && exp.why == "unique tag taken" {
		if (st.K == "create" && e.avoid(sigCreateUniqueKeepsDoc)) || (st.K == "update" && e.avoid(sigUpdateUniqueLosesKey)) {
			e.label("avoided:unique-violation-in-txn")
			e.note("%s %s d%d skipped (switch: no unique violation inside a transaction)", actorName(ac.id), st.K, st.D)
			return false, nil
		}
	}
	if ac.id != 0 && st.K == "mkindex" && exp.why == "duplicate tags" && e.avoid(sigFailedMkindexKeepsDesc) {
		e.label("avoided:failing-unique-index-creation-in-txn")
		e.note("%s mkindex %s skipped (switch: no failing unique index creation inside a transaction)", actorName(ac.id), st.F)
		return false, nil
	}
	if st.K == "mkindex" && e.started && e.avoid(sigIndexMissesConcurrent) && (ac.id != 0 || e.openTxns() > 0) {
		e.label("avoided:index-creation-concurrent-with-transactions")
		e.note("%s mkindex %s skipped (switch: no index creation while a transaction is open)", actorName(ac.id), st.F)
		return false, nil
	}
	if st.K == "delete" && st.R == 2 && v.docs[st.D].st != live && len(v.idx) > 0 && e.avoid(sigDeleteMissingDocPanic) {
		e.label("avoided:collection.Delete-of-missing-doc-with-index")
		st.R = 0
		route = routeName(st.A, st.R)
	}
	e.label("route:" + route)
	out, f := e.execMutation(ac, st)
	if n := len(ac.objs); n > 0 && !ac.objs[n-1].seen {
		ac.objs[n-1].seen, ac.objs[n-1].age, ac.objs[n-1].tag = true, v.docs[st.D].age, v.docs[st.D].tag
	}
	if f != nil {
		if strings.HasPrefix(f.Sig, "C06/panic/") && st.K == "delete" && st.R == 2 && v.docs[st.D].st != live && len(v.idx) > 0 &&
			strings.Contains(f.Msg, "deleteIndexedDocWithID") {
			// diagnoser: Collection.Delete fetches the document for index maintenance before it checks existence
			return false, e.failf(sigDeleteMissingDocPanic, "%s: step %+v: Collection.Delete of a document that is not live (%s) while the collection has a secondary index: %s",
				actorName(ac.id), st, e.render(v), f.Msg)
		}
		return false, f
	}
	e.note("%s %s d%d %s=%d unique=%v via %s → %s %s (model: apply=%v %s)", actorName(ac.id), st.K, st.D, st.F, st.V, st.U, route, out.kind, out.err, exp.apply, exp.why)
	if exp.apply && out.kind != "applied" {
		return false, e.failf("C06/op-result/"+st.K+"/"+route+"/expected-applied-got-"+out.kind,
			"%s: step %+v must succeed on the actor's view %s but gave %s %s", actorName(ac.id), st, e.render(v), out.kind, out.err)
	}
	if !exp.apply && out.kind == "applied" {
		return false, e.failf("C06/op-result/"+st.K+"/"+route+"/expected-no-effect-got-applied",
			"%s: step %+v must fail or do nothing (%s) on the actor's view %s but reported success", actorName(ac.id), st, exp.why, e.render(v))
	}
	if !exp.apply {
		e.label("expected-no-effect:" + st.K + ":" + exp.why)
	}
	if exp.apply {
		applyTo(v, st, e.c.Docs)
		if st.A == 0 {
			r := commitRec{begin: e.clock, clock: e.clock, actor: 0, docs: map[int]bool{}, touched: map[int]bool{}, res: map[string]bool{}, mkidx: map[string]bool{}}
			if !strings.HasSuffix(st.K, "index") {
				r.touched[st.D] = true
				if exp.definite {
					r.docs[st.D] = true
				}
			}
			for _, x := range exp.res {
				r.res[x] = true
			}
			if st.K == "mkindex" {
				r.mkidx[st.F] = true
				e.idxCreator[st.F] = r
			}
			e.log = append(e.log, r)
			if strings.HasSuffix(st.K, "index") && e.started {
				e.label("ddl-outside-txn")
			}
		} else {
			if strings.HasSuffix(st.K, "index") {
				ac.ddl = true
				if st.K == "mkindex" {
					ac.mkidx[st.F] = true
				} else {
					delete(ac.mkidx, st.F)
				}
				e.label("ddl-in-txn")
			} else {
				ac.touched[st.D] = true
				if exp.definite {
					ac.wrote[st.D] = true
				}
				ac.events = append(ac.events, expEvent{id: e.ids[st.D], optional: !exp.definite})
			}
			for _, x := range exp.res {
				ac.res[x] = true
			}
		}
		// the row a GraphQL mutation returns shows the new state
		if out.row != nil && st.K != "delete" {
			want := e.row(st.D, v.docs[st.D], false)
			if hx.Canon(out.row) != hx.Canon(want) {
				return false, e.failf("C06/mutation-result-row/"+st.K+"/"+route, "%s: step %+v returned %s, want %s", actorName(ac.id), st, hx.Canon(out.row), hx.Canon(want))
			}
		}
	}
	if strings.HasSuffix(st.K, "index") {
		// read the index list back inside the same actor
		var m map[client.CollectionName][]client.IndexDescription
		var err error
		if ac.id == 0 {
			m, err = e.n.DB.GetAllIndexes(e.ctx)
		} else {
			m, err = ac.txn.GetAllIndexes(e.ctx)
		}
		if err != nil {
			return false, e.failf("C06/read-back-error/"+st.K, "GetAllIndexes after step %+v: %v", st, err)
		}
		if got, want := renderIndexes(m["Users"]), v.indexNames(); got != want {
			cause := "effect-missing"
			if !exp.apply {
				cause = "failed-op-had-effect"
				// diagnoser: createIndex saves the collection description before indexExistingDocs fails
				after := v.clone()
				after.idx[st.F] = st.U
				if ac.id != 0 && st.K == "mkindex" && exp.why == "duplicate tags" && out.kind == "error" &&
					strings.Contains(out.err, "violates unique index") && got == after.indexNames() {
					return false, e.failf(sigFailedMkindexKeepsDesc,
						"%s: step %+v failed (%s) but the index is now listed inside the transaction: [%s] (view before: %s)",
						actorName(ac.id), st, out.err, got, e.render(v))
				}
			}
			return false, e.failf("C06/read-back-differs/"+st.K+"/"+route+"/"+cause,
				"%s: after step %+v (model: apply=%v %s; reported %s %s) the actor lists the indexes [%s], want [%s]",
				actorName(ac.id), st, exp.apply, exp.why, out.kind, out.err, got, want)
		}
		return exp.apply, nil
	}
	// read the document back inside the same actor (touches only keys the mutation touched)
	r := st.R
	if r == 2 {
		r = 0
	}
	q := fmt.Sprintf(`query { live: Users(docID: %q) { _docID name age tag } all: Users(docID: %q, showDeleted: true) { _docID _deleted } }`, e.ids[st.D], e.ids[st.D])
	res := e.gql(ac, r, q)
	if res.Panic != "" {
		return false, hx.Failf("C06/panic/"+hx.PanicSite(res.Panic), "read-back after %+v panicked: %s", st, res.Panic)
	}
	if !res.OK() {
		return false, e.failf("C06/read-back-error/"+st.K, "read-back after step %+v: %s", st, res.Err())
	}
	gotLive, gotAll := hx.SortRows(res.Rows("live")), hx.SortRows(res.Rows("all"))
	wantLive, wantAll := e.docRows(v, st.D)
	if !eqStrings(gotLive, wantLive) || !eqStrings(gotAll, wantAll) {
		cause := "effect-missing"
		if !exp.apply {
			cause = "failed-op-had-effect"
			// diagnoser: the create wrote the document and then failed on the unique index; inside an
			// explicit transaction nothing rolls the document back
			after := *v
			after.docs = append([]mdoc(nil), v.docs...)
			after.docs[st.D] = mdoc{st: live, age: e.c.Docs[st.D].Age, tag: e.c.Docs[st.D].Tag}
			asIfLive, asIfAll := e.docRows(&after, st.D)
			if ac.id != 0 && st.K == "create" && exp.why == "unique tag taken" && out.kind == "error" &&
				strings.Contains(out.err, "violates unique index") && eqStrings(gotLive, asIfLive) && eqStrings(gotAll, asIfAll) {
				return false, e.failf(sigCreateUniqueKeepsDoc,
					"%s: step %+v failed (%s) but the document it tried to create is now in the transaction: live=%v (view before: %s)",
					actorName(ac.id), st, out.err, gotLive, e.render(v))
			}
		}
		return false, e.failf("C06/read-back-differs/"+st.K+"/"+route+"/"+cause,
			"%s: after step %+v (model: apply=%v %s; reported %s %s) the document reads back as live=%v all=%v, want live=%v all=%v",
			actorName(ac.id), st, exp.apply, exp.why, out.kind, out.err, gotLive, gotAll, wantLive, wantAll)
	}
	if st.K == "update" && exp.why == "unique tag taken" {
		cur := v.docs[st.D]
		q := fmt.Sprintf(`query { Users(filter: {tag: {_eq: %q}}) { _docID } }`, tagPool[cur.tag])
		res := e.gql(ac, r, q)
		if res.Panic != "" {
			return false, hx.Failf("C06/panic/"+hx.PanicSite(res.Panic), "index read-back after %+v panicked: %s", st, res.Panic)
		}
		if !res.OK() {
			return false, e.failf("C06/read-back-error/"+st.K, "index read-back after step %+v: %s", st, res.Err())
		}
		found := false
		for _, row := range res.Rows("Users") {
			if row["_docID"] == e.ids[st.D] {
				found = true
			}
		}
		if !found {
			sig := "C06/read-back-differs/update/" + route + "/failed-op-lost-index-entry"
			if ac.id != 0 && out.kind == "error" && strings.Contains(out.err, "violates unique index") {
				sig = sigUpdateUniqueLosesKey
			}
			return false, e.failf(sig, "%s: step %+v failed (%s) and now the document is no longer found by tag=%q through the unique index inside the same actor: %v",
				actorName(ac.id), st, out.err, tagPool[cur.tag], res.Rows("Users"))
		}
	}
	return exp.apply, nil
}

func eqStrings(a, b []string) bool {
	if len(a) != len(b) {
		return false
	}
	for i := range a {
		if a[i] != b[i] {
			return false
		}
	}
	return true
}

func (e *env) row(k int, d mdoc, withDeleted bool) map[string]any {
	m := map[string]any{
		"_docID": e.ids[k],
		"name":   fmt.Sprintf("d%d", k),
		"age":    json.Number(strconv.Itoa(d.age)),
		"tag":    tagPool[d.tag],
	}
	if withDeleted {
		m["_deleted"] = d.st == deleted
	}
	return m
}

// docRows: what `live` and `all` selections by docID must return.
func (e *env) docRows(v *mstate, k int) (liveRows, allRows []string) {
	liveRows, allRows = []string{}, []string{}
	d := v.docs[k]
	if d.st == live {
		liveRows = append(liveRows, hx.Canon(e.row(k, d, false)))
	}
	if d.st != absent {
		allRows = append(allRows, hx.Canon(map[string]any{"_docID": e.ids[k], "_deleted": d.st == deleted}))
	}
	return
}

func (e *env) render(v *mstate) string {
	parts := []string{}
	for k, d := range v.docs {
		switch d.st {
		case absent:
			parts = append(parts, fmt.Sprintf("d%d:-", k))
		case live:
			parts = append(parts, fmt.Sprintf("d%d:{age %d tag %s}", k, d.age, tagPool[d.tag]))
		case deleted:
			parts = append(parts, fmt.Sprintf("d%d:deleted{age %d tag %s}", k, d.age, tagPool[d.tag]))
		}
	}
	return "{" + strings.Join(parts, " ") + " indexes[" + v.indexNames() + "]}"
}

func classifyGQL(res hx.Result, key string) (outcome, *hx.Failure) {
	if res.Panic != "" {
		return outcome{}, hx.Failf("C06/panic/"+hx.PanicSite(res.Panic), "panic: %s", res.Panic)
	}
	if !res.OK() {
		return outcome{kind: "error", err: res.Err()}, nil
	}
	rows := res.Rows(key)
	switch len(rows) {
	case 0:
		return outcome{kind: "noop"}, nil
	case 1:
		return outcome{kind: "applied", row: rows[0]}, nil
	}
	return outcome{}, hx.Failf("C06/mutation-result-rows", "%s returned %d rows for one docID", key, len(rows))
}

func notFound(err error) bool {
	return errors.Is(err, client.ErrDocumentNotFoundOrNotAuthorized)
}

// execMutation runs the mutation; a panic of the code under test becomes a failure whose
// message carries the full stack (the diagnosers look at it).
func (e *env) execMutation(ac *actor, st Step) (out outcome, f *hx.Failure) {
	defer func() {
		if p := recover(); p != nil {
			if he, ok := p.(hx.HarnessError); ok {
				panic(he)
			}
			stack := string(debug.Stack())
			f = hx.Failf("C06/panic/"+hx.PanicSite(stack), "panic: %v\n%s", p, stack)
		}
	}()
	return e.execMutation0(ac, st)
}

func (e *env) execMutation0(ac *actor, st Step) (outcome, *hx.Failure) {
	id := e.ids[st.D]
	init := e.c.Docs[st.D]
	switch st.K {
	case "create":
		if st.R != 2 {
			q := fmt.Sprintf(`mutation { create_Users(input: {name: "d%d", age: %d, tag: %q}) { _docID name age tag } }`, st.D, init.Age, tagPool[init.Tag])
			if st.Alt {
				// the list form of the input (the batch-create path)
				q = fmt.Sprintf(`mutation { create_Users(input: [{name: "d%d", age: %d, tag: %q}]) { _docID name age tag } }`, st.D, init.Age, tagPool[init.Tag])
			}
			return classifyGQL(e.gql(ac, st.R, q), "create_Users")
		}
		col, err := e.col(ac)
		if err != nil {
			return outcome{kind: "error", err: err.Error()}, nil
		}
		doc, err := client.NewDocFromJSON([]byte(docJSON(st.D, init)), col.Definition())
		if err != nil {
			hx.Harnessf("doc: %v", err)
		}
		if st.Alt {
			if err := col.CreateMany(e.callCtx(ac), []*client.Document{doc}); err != nil {
				return outcome{kind: "error", err: err.Error()}, nil
			}
			return outcome{kind: "applied"}, nil
		}
		if err := col.Create(e.callCtx(ac), doc); err != nil {
			return outcome{kind: "error", err: err.Error()}, nil
		}
		return outcome{kind: "applied"}, nil

	case "update":
		if st.R != 2 {
			val := strconv.Itoa(st.V)
			if st.F == "tag" {
				val = strconv.Quote(tagPool[st.V])
			}
			q := fmt.Sprintf(`mutation { update_Users(docID: %q, input: {%s: %s}) { _docID name age tag } }`, id, st.F, val)
			if st.Alt {
				// the same document selected by a filter (the filtered-update path)
				q = fmt.Sprintf(`mutation { update_Users(filter: {_docID: {_eq: %q}}, input: {%s: %s}) { _docID name age tag } }`, id, st.F, val)
			}
			return classifyGQL(e.gql(ac, st.R, q), "update_Users")
		}
		col, err := e.col(ac)
		if err != nil {
			return outcome{kind: "error", err: err.Error()}, nil
		}
		docID, err := client.NewDocIDFromString(id)
		if err != nil {
			hx.Harnessf("docID: %v", err)
		}
		var doc *client.Document
		if e.reuseDoc != nil {
			// the retry idiom: the object that was passed to Update inside the failed transaction is passed again
			doc, e.reuseDoc = e.reuseDoc, nil
		} else {
			doc, err = col.Get(e.callCtx(ac), docID, false)
			if err != nil {
				if notFound(err) {
					return outcome{kind: "noop", err: err.Error()}, nil
				}
				return outcome{kind: "error", err: err.Error()}, nil
			}
			if st.F == "tag" {
				err = doc.Set("tag", tagPool[st.V])
			} else {
				err = doc.Set("age", int64(st.V))
			}
			if err != nil {
				hx.Harnessf("doc.Set: %v", err)
			}
		}
		if st.Alt {
			if err := col.Save(e.callCtx(ac), doc); err != nil {
				return outcome{kind: "error", err: err.Error()}, nil
			}
		} else if err := col.Update(e.callCtx(ac), doc); err != nil {
			return outcome{kind: "error", err: err.Error()}, nil
		}
		if ac.id != 0 {
			ac.objs = append(ac.objs, stashedDoc{d: st.D, f: st.F, v: st.V, doc: doc})
		}
		return outcome{kind: "applied"}, nil

	case "delete":
		if st.R != 2 {
			q := fmt.Sprintf(`mutation { delete_Users(docID: %q) { _docID } }`, id)
			if st.Alt {
				q = fmt.Sprintf(`mutation { delete_Users(filter: {_docID: {_eq: %q}}) { _docID } }`, id)
			}
			return classifyGQL(e.gql(ac, st.R, q), "delete_Users")
		}
		col, err := e.col(ac)
		if err != nil {
			return outcome{kind: "error", err: err.Error()}, nil
		}
		docID, err := client.NewDocIDFromString(id)
		if err != nil {
			hx.Harnessf("docID: %v", err)
		}
		if st.Alt {
			res, err := col.DeleteWithFilter(e.callCtx(ac), fmt.Sprintf(`{_docID: {_eq: %q}}`, id))
			if err != nil {
				return outcome{kind: "error", err: err.Error()}, nil
			}
			if res == nil || res.Count == 0 {
				return outcome{kind: "noop"}, nil
			}
			return outcome{kind: "applied"}, nil
		}
		ok, err := col.Delete(e.callCtx(ac), docID)
		if err != nil {
			if notFound(err) {
				return outcome{kind: "noop", err: err.Error()}, nil
			}
			return outcome{kind: "error", err: err.Error()}, nil
		}
		if !ok {
			return outcome{kind: "noop"}, nil
		}
		return outcome{kind: "applied"}, nil

	case "mkindex":
		col, err := e.col(ac)
		if err != nil {
			return outcome{kind: "error", err: err.Error()}, nil
		}
		_, err = col.CreateIndex(e.callCtx(ac), client.IndexCreateRequest{
			Name:   "ix_" + st.F,
			Fields: []client.IndexedFieldDescription{{Name: st.F}},
			Unique: st.F == "tag" && st.U,
		})
		if err != nil {
			return outcome{kind: "error", err: err.Error()}, nil
		}
		return outcome{kind: "applied"}, nil

	case "rmindex":
		col, err := e.col(ac)
		if err != nil {
			return outcome{kind: "error", err: err.Error()}, nil
		}
		if err := col.DropIndex(e.callCtx(ac), "ix_"+st.F); err != nil {
			return outcome{kind: "error", err: err.Error()}, nil
		}
		return outcome{kind: "applied"}, nil
	}
	hx.Harnessf("execMutation: %q", st.K)
	return outcome{}, nil
}

// ---------------------------------------------------------------------------------------------
// reads

func filterArg(st Step) string {
	switch st.F {
	case "age":
		return fmt.Sprintf(`filter: {age: {_ge: %d}}`, st.V)
	case "tag":
		return fmt.Sprintf(`filter: {tag: {_eq: %q}}`, tagPool[st.V])
	}
	return ""
}

func matches(st Step, d mdoc) bool {
	switch st.F {
	case "age":
		return d.age >= st.V
	case "tag":
		return d.tag == st.V
	}
	return true
}

// readExpect renders what the read must return under state s.
func (e *env) readExpect(st Step, s *mstate) string {
	switch st.K {
	case "get":
		rows := []string{}
		if d := s.docs[st.D]; d.st == live {
			rows = append(rows, hx.Canon(e.row(st.D, d, false)))
		}
		return strings.Join(rows, "\n")
	case "list", "count":
		rows := []string{}
		for k, d := range s.docs {
			if d.st == absent || (d.st == deleted && !(st.K == "list" && st.U)) {
				continue
			}
			if !matches(st, d) {
				continue
			}
			rows = append(rows, hx.Canon(e.row(k, d, st.K == "list" && st.U)))
		}
		if st.K == "count" {
			return strconv.Itoa(len(rows))
		}
		sort.Strings(rows)
		return strings.Join(rows, "\n")
	case "indexes":
		return s.indexNames()
	case "exists":
		return strconv.FormatBool(s.docs[st.D].st == live)
	case "docids":
		// the primary key of a deleted document stays (marked deleted): GetAllDocIDs lists it too
		ids := []string{}
		for k, d := range s.docs {
			if d.st != absent {
				ids = append(ids, e.ids[k])
			}
		}
		sort.Strings(ids)
		return strings.Join(ids, "\n")
	}
	hx.Harnessf("readExpect: %q", st.K)
	return ""
}

func renderIndexes(descs []client.IndexDescription) string {
	out := []string{}
	for _, d := range descs {
		n := d.Name
		if d.Unique {
			n += "!"
		}
		out = append(out, n)
	}
	sort.Strings(out)
	return strings.Join(out, ",")
}

// observe performs the read; route is the effective route used.
func (e *env) observe(ac *actor, st Step) (got string, errText string, route string, f *hx.Failure) {
	r := st.R
	switch st.K {
	case "get":
		if r == 2 {
			route = routeName(st.A, 2)
			col, err := e.col(ac)
			if err != nil {
				return "", err.Error(), route, nil
			}
			docID, err := client.NewDocIDFromString(e.ids[st.D])
			if err != nil {
				hx.Harnessf("docID: %v", err)
			}
			doc, err := col.Get(e.callCtx(ac), docID, false)
			if err != nil {
				if notFound(err) {
					return "", "", route, nil
				}
				return "", err.Error(), route, nil
			}
			m, err := doc.ToMap()
			if err != nil {
				return "", err.Error(), route, nil
			}
			row := map[string]any{"_docID": doc.ID().String(), "name": m["name"], "age": m["age"], "tag": m["tag"]}
			return hx.Canon(hx.Normalize(row)), "", route, nil
		}
		route = routeName(st.A, r)
		q := fmt.Sprintf(`query { Users(docID: %q) { _docID name age tag } }`, e.ids[st.D])
		res := e.gql(ac, r, q)
		if res.Panic != "" {
			return "", "", route, hx.Failf("C06/panic/"+hx.PanicSite(res.Panic), "panic: %s", res.Panic)
		}
		if !res.OK() {
			return "", res.Err(), route, nil
		}
		return strings.Join(hx.SortRows(res.Rows("Users")), "\n"), "", route, nil

	case "list", "count":
		if r == 2 {
			r = 0
		}
		route = routeName(st.A, r)
		args := []string{}
		if fa := filterArg(st); fa != "" {
			args = append(args, fa)
		}
		if st.K == "list" && st.U {
			args = append(args, "showDeleted: true")
		}
		if st.K == "count" {
			sel := "Users: {}"
			if len(args) > 0 {
				sel = "Users: {" + strings.Join(args, ", ") + "}"
			}
			res := e.gql(ac, r, `query { _count(`+sel+`) }`)
			if res.Panic != "" {
				return "", "", route, hx.Failf("C06/panic/"+hx.PanicSite(res.Panic), "panic: %s", res.Panic)
			}
			if !res.OK() {
				return "", res.Err(), route, nil
			}
			return fmt.Sprint(res.Data["_count"]), "", route, nil
		}
		a := ""
		if len(args) > 0 {
			a = "(" + strings.Join(args, ", ") + ")"
		}
		fields := "_docID name age tag"
		if st.U {
			fields += " _deleted"
		}
		res := e.gql(ac, r, `query { Users`+a+` { `+fields+` } }`)
		if res.Panic != "" {
			return "", "", route, hx.Failf("C06/panic/"+hx.PanicSite(res.Panic), "panic: %s", res.Panic)
		}
		if !res.OK() {
			return "", res.Err(), route, nil
		}
		return strings.Join(hx.SortRows(res.Rows("Users")), "\n"), "", route, nil

	case "exists":
		// Collection.Exists: true for a live document only
		route = routeName(st.A, 2)
		col, err := e.col(ac)
		if err != nil {
			return "", err.Error(), route, nil
		}
		id, err := client.NewDocIDFromString(e.ids[st.D])
		if err != nil {
			hx.Harnessf("docID: %v", err)
		}
		ok, err := col.Exists(e.callCtx(ac), id)
		if err != nil {
			return "", err.Error(), route, nil
		}
		return strconv.FormatBool(ok), "", route, nil

	case "docids":
		// Collection.GetAllDocIDs: the ids of the documents (deleted ones included), through the collection API only
		route = routeName(st.A, 2)
		col, err := e.col(ac)
		if err != nil {
			return "", err.Error(), route, nil
		}
		ch, err := col.GetAllDocIDs(e.callCtx(ac))
		if err != nil {
			return "", err.Error(), route, nil
		}
		ids := []string{}
		for res := range ch {
			if res.Err != nil {
				return "", res.Err.Error(), route, nil
			}
			ids = append(ids, res.ID.String())
		}
		sort.Strings(ids)
		return strings.Join(ids, "\n"), "", route, nil

	case "indexes":
		route = routeName(st.A, r)
		switch {
		case r == 2:
			col, err := e.col(ac)
			if err != nil {
				return "", err.Error(), route, nil
			}
			descs, err := col.GetIndexes(e.callCtx(ac))
			if err != nil {
				return "", err.Error(), route, nil
			}
			return renderIndexes(descs), "", route, nil
		case r == 1 || ac.id == 0:
			m, err := e.n.DB.GetAllIndexes(e.callCtx(ac))
			if err != nil {
				return "", err.Error(), route, nil
			}
			return renderIndexes(m["Users"]), "", route, nil
		default:
			m, err := ac.txn.GetAllIndexes(e.ctx)
			if err != nil {
				return "", err.Error(), route, nil
			}
			return renderIndexes(m["Users"]), "", route, nil
		}
	}
	hx.Harnessf("observe: %q", st.K)
	return
}

// covered lists the documents a read depends on.
func covered(st Step, n int) []int {
	if st.K == "get" || st.K == "exists" {
		return []int{st.D}
	}
	if st.K == "indexes" {
		return nil
	}
	out := make([]int, n)
	for i := range out {
		out[i] = i
	}
	return out
}

func (e *env) read(ac *actor, st Step) *hx.Failure {
	v := e.view(ac)
	got, errText, route, f := e.observe(ac, st)
	if f != nil {
		return f
	}
	e.label("route:" + route)
	want := e.readExpect(st, v)
	e.note("%s %s d%d filter(%s,%d) showDeleted=%v via %s → %q %s", actorName(ac.id), st.K, st.D, st.F, st.V, st.U, route, got, errText)
	if ac.id != 0 {
		for _, d := range covered(st, len(v.docs)) {
			if e.S.docs[d] != ac.snap.docs[d] {
				e.label("read-after-foreign-commit(snapshot must hold)")
				e.inf.nontrivial = true
			}
			if ac.touched[d] {
				e.label("read-own-write")
			}
		}
		if st.K == "indexes" && e.S.indexNames() != ac.snap.indexNames() {
			e.label("read-indexes-after-foreign-ddl")
		}
	}
	if errText != "" {
		return e.failf("C06/read-error/"+st.K+"/"+route, "%s: read %+v failed: %s", actorName(ac.id), st, errText)
	}
	if got == want {
		return nil
	}
	if ac.id == 0 {
		return e.failf("C06/outside-read-differs/"+st.K+"/"+route, "no-transaction read %+v returned\n%s\nwant (committed state %s)\n%s", st, got, e.render(v), want)
	}
	cause := "other"
	mixed := e.S.clone()
	for d := range ac.touched {
		mixed.docs[d] = ac.view.docs[d]
	}
	if ac.ddl {
		mixed.idx = ac.view.clone().idx
	}
	switch got {
	case e.readExpect(st, &e.S):
		cause = "sees-committed-state-instead-of-snapshot"
	case e.readExpect(st, &ac.snap):
		cause = "own-writes-missing"
	case e.readExpect(st, &mixed):
		cause = "sees-foreign-commit"
	}
	return e.failf("C06/txn-read-differs/"+st.K+"/"+route+"/"+cause,
		"T%d: read %+v returned\n%s\nwant (snapshot at [%d] + own writes = %s; committed state now %s)\n%s",
		ac.id, st, got, ac.beginClock, e.render(v), e.render(&e.S), want)
}

// ---------------------------------------------------------------------------------------------
// the reader outside every transaction

func (e *env) outside(st Step, phase string) *hx.Failure {
	in := make([]string, len(tagPool))
	for i, t := range tagPool {
		in[i] = strconv.Quote(t)
	}
	q := `query {
		live: Users { _docID name age tag }
		all: Users(showDeleted: true) { _docID _deleted }
		byAge: Users(filter: {age: {_ge: 0}}) { _docID name age tag }
		byTag: Users(filter: {tag: {_in: [` + strings.Join(in, ", ") + `]}}) { _docID name age tag }
	}`
	res := e.n.Exec(q)
	if res.Panic != "" {
		return hx.Failf("C06/panic/"+hx.PanicSite(res.Panic), "outside read panicked after %+v: %s", st, res.Panic)
	}
	if !res.OK() {
		return e.failf("C06/outside-read-error/at-"+phase, "outside read after step %+v: %s", st, res.Err())
	}
	wantLive, wantAll := []string{}, []string{}
	for k, d := range e.S.docs {
		if d.st == live {
			wantLive = append(wantLive, hx.Canon(e.row(k, d, false)))
		}
		if d.st != absent {
			wantAll = append(wantAll, hx.Canon(map[string]any{"_docID": e.ids[k], "_deleted": d.st == deleted}))
		}
	}
	sort.Strings(wantLive)
	sort.Strings(wantAll)
	for _, sel := range []string{"live", "all", "byAge", "byTag"} {
		got := hx.SortRows(res.Rows(sel))
		want := wantLive
		if sel == "all" {
			want = wantAll
		}
		if eqStrings(got, want) {
			continue
		}
		what := "scan"
		if sel == "byAge" || sel == "byTag" {
			what = "filter-" + sel
			field := strings.ToLower(sel[2:])
			if _, ok := e.S.idx[field]; ok {
				what += "-indexed"
				if why := e.explainedByConcurrentIndexCreation(field, got, want); why != "" {
					return e.failf(sigIndexMissesConcurrent,
						"after step %+v the filter on %s, served by index ix_%s, returns\n%s\nwant (committed state %s)\n%s\n%s",
						st, field, field, strings.Join(got, "\n"), e.render(&e.S), strings.Join(want, "\n"), why)
				}
			}
		} else if sel == "all" {
			what = "scan-showDeleted"
		}
		return e.failf("C06/outside-state-differs/"+what+"/at-"+phase,
			"after step %+v a reader outside every transaction sees (%s)\n%s\nwant (committed state %s)\n%s",
			st, sel, strings.Join(got, "\n"), e.render(&e.S), strings.Join(want, "\n"))
	}
	m, err := e.n.DB.GetAllIndexes(e.ctx)
	if err != nil {
		return e.failf("C06/outside-read-error/at-"+phase, "GetAllIndexes after step %+v: %v", st, err)
	}
	if got, want := renderIndexes(m["Users"]), e.S.indexNames(); got != want {
		return e.failf("C06/outside-state-differs/indexes/at-"+phase, "after step %+v the committed indexes are [%s], want [%s]", st, got, want)
	}
	return nil
}

// explainedByConcurrentIndexCreation is the diagnoser of sigIndexMissesConcurrent: rows are only
// missing (none extra, none different), and every missing document was written by a writer whose
// lifetime overlapped the lifetime of the writer that created the index (so one of the two could
// not see the other: the index was built from a snapshot without the document, or the document was
// written under a snapshot without the index), both committed.
func (e *env) explainedByConcurrentIndexCreation(field string, got, want []string) string {
	x, ok := e.idxCreator[field]
	if !ok {
		return ""
	}
	gotSet := map[string]bool{}
	for _, g := range got {
		gotSet[g] = true
	}
	wantSet := map[string]bool{}
	for _, w := range want {
		wantSet[w] = true
	}
	for g := range gotSet {
		if !wantSet[g] {
			return ""
		}
	}
	why := []string{}
	for k, d := range e.S.docs {
		if d.st != live || gotSet[hx.Canon(e.row(k, d, false))] {
			continue
		}
		found := false
		for _, y := range e.log {
			if y.clock == x.clock && y.actor == x.actor {
				continue
			}
			if y.touched[k] && y.begin < x.clock && x.begin < y.clock {
				found = true
				why = append(why, fmt.Sprintf("d%d is missing: written by %s (snapshot [%d], committed [%d]) concurrently with the creation of ix_%s by %s (snapshot [%d], committed [%d])",
					k, actorName(y.actor), y.begin, y.clock, field, actorName(x.actor), x.begin, x.clock))
				break
			}
		}
		if !found {
			return ""
		}
	}
	return strings.Join(why, "; ")
}

// finishLabels derives the case-level classification from the model's bookkeeping.
func (e *env) finishLabels() {
	ids := []int{}
	for a := range e.actors {
		if a != 0 {
			ids = append(ids, a)
		}
	}
	sort.Ints(ids)
	e.label(fmt.Sprintf("txns:%d", len(ids)))
	overlapSame := false
	for i, a := range ids {
		x := e.actors[a]
		if !x.begun {
			continue
		}
		for _, b := range ids[i+1:] {
			y := e.actors[b]
			if !y.begun || x.endClock < y.beginClock || y.endClock < x.beginClock {
				continue
			}
			e.label("txns-overlap-in-time")
			for d := range x.wrote {
				if y.wrote[d] {
					overlapSame = true
					e.label("overlap:two-txns-write-same-doc")
				}
			}
			for r := range x.res {
				if y.res[r] {
					overlapSame = true
					e.label("overlap:two-txns-write-same-" + strings.SplitN(r, ":", 2)[0])
				}
			}
		}
		for _, r := range e.log {
			if r.actor != 0 || r.clock < x.beginClock || r.clock > x.endClock {
				continue
			}
			for d := range r.docs {
				if x.wrote[d] {
					overlapSame = true
					e.label("overlap:txn-and-notxn-write-same-doc")
				}
			}
		}
	}
	if overlapSame {
		e.inf.nontrivial = true
	}
}
