// Package c06 checks property C06: explicit transactions are isolated (snapshot reads,
// atomic visibility at commit, no trace of discarded/failed transactions, no lost updates).
//
// One case = a small pool of documents, 2-3 explicit transactions (db.NewTxn) and a
// "no transaction" actor, and ONE global interleaving of all their operations which the
// harness executes on one goroutine. The oracle is a reference model kept by the harness:
// committed state S, per transaction a snapshot of S taken at begin plus its own writes.
package c06

import (
	"encoding/json"
	"fmt"
	"sort"
	"testing"

	"pgregory.net/rapid"

	"github.com/sourcenetwork/defradb/verifharness/hx"
)

func TestMain(m *testing.M) { hx.Main(m) }

var rec = hx.NewRecorder("C06",
	"a pool of 1-4 documents (some committed up front), an optional secondary index (plain on age/tag or unique on tag), "+
		"2-3 explicit transactions from db.NewTxn or db.NewConcurrentTxn (occasionally read-only) with 1-6 operations each {create, update, delete, "+
		"read by id, list with filter, count, list indexes, rarely create/drop index} through three routes (txn.ExecRequest, "+
		"db.ExecRequest with the transaction in the context, collection API with the transaction in the context), a terminal "+
		"commit or discard, plus a no-transaction actor; one global interleaving drawn by rapid and executed on one goroutine. "+
		"A case is non-trivial when two transactions that overlap in time write the same document (or the same unique value / both "+
		"change indexes), or a transaction reads a document after another actor committed a change to it since the reader began; "+
		"distinct = distinct case",
	"Badger (in-memory) is the storage engine; a conflict error on a commit is accepted whenever any other writer committed "+
		"during the transaction's lifetime (Badger validates reads), and demanded only when such a writer wrote the same "+
		"document / unique value / index set",
	"operations never block: everything runs on one goroutine, no NewConcurrentTxn",
	"an update that sets a field to the value it already has in the transaction's view is not counted as a write when demanding a conflict",
)

// tagPool is the pool of tag values (small, to force equal values under a unique index).
var tagPool = []string{"a", "b", "c"}

// DocInit is the initial content of one document of the pool; name is "d<k>", so the
// document ids are distinct and fixed by the case.
type DocInit struct {
	Age int `json:"age"`
	Tag int `json:"tag"` // index into tagPool
}

// Step is one operation of the global interleaving.
type Step struct {
	A int    `json:"a"`           // actor: 0 = no transaction, 1..3 = explicit transaction
	K string `json:"k"`           // begin commit discard | create update delete | get list count indexes | mkindex rmindex
	D int    `json:"d,omitempty"` // document (index into the pool, modulo)
	F string `json:"f,omitempty"` // field: "age" | "tag" | "" (no filter)
	V int    `json:"v,omitempty"` // new age / tag pool index / filter operand
	R int    `json:"r,omitempty"` // route: 0 txn.ExecRequest, 1 db.ExecRequest(ctx with txn), 2 collection API (ctx with txn)
	U bool   `json:"u,omitempty"` // begin: read-only; mkindex: unique; list: showDeleted
	C bool   `json:"c,omitempty"` // begin: db.NewConcurrentTxn instead of db.NewTxn (still used from one goroutine)
	// Alt (create update delete): the alternative call of the route - collection API: CreateMany / Save /
	// DeleteWithFilter on _docID; GraphQL: list input / filter on _docID instead of the docID argument
	Alt bool `json:"alt,omitempty"`
	// Reuse (update by the actor without transaction): when the latest collection-API update of the document ran in
	// a transaction that was discarded or failed to commit, that update is retried with the SAME document object
	Reuse bool `json:"reuse,omitempty"`
}

// Case is the whole input.
type Case struct {
	Docs  []DocInit `json:"docs"`
	Seed  []bool    `json:"seed"`  // document k is created and committed before the interleaving starts
	Index string    `json:"index"` // "", "age", "tag", "utag" (unique on tag): created before the interleaving starts
	Steps []Step    `json:"steps"`
	// Avoid: stay clear of the triggers of the listed (known) findings so that states behind them
	// stay reachable; drawn true for about half of the cases.
	Avoid bool `json:"avoid,omitempty"`
}

// drawOp draws one operation. pref >= 0 is the document the actor prefers (affinity mode: the
// transactions mostly work on different documents, so that overlapping transactions with disjoint
// write sets, which must both commit, are well represented).
func drawOp(t *rapid.T, actor, ndocs, pref int, label string) Step {
	st := drawOp0(t, actor, ndocs, label)
	if pref >= 0 {
		switch st.K {
		case "create", "update", "delete", "get", "exists":
			if rapid.IntRange(0, 7).Draw(t, label+"own") != 3 {
				st.D = pref % ndocs
			}
		case "list", "count", "docids":
			if rapid.IntRange(0, 3).Draw(t, label+"narrow") != 2 {
				st = Step{A: actor, K: "get", D: pref % ndocs, R: st.R}
			}
		}
	}
	return st
}

func drawOp0(t *rapid.T, actor, ndocs int, label string) Step {
	st := Step{A: actor}
	// weights: update 6, create 4, delete 3, get 4, list 3, count 1, indexes 1 (per 22), DDL ~1/22
	k := rapid.IntRange(0, 26).Draw(t, label+"kind")
	switch {
	case k < 6:
		st.K = "update"
	case k < 10:
		st.K = "create"
	case k < 13:
		st.K = "delete"
	case k < 17:
		st.K = "get"
	case k < 20:
		st.K = "list"
	case k < 21:
		st.K = "count"
	case k < 22:
		st.K = "indexes"
	case k < 24:
		st.K = "docids"
	case k < 26:
		st.K = "exists"
	default:
		if rapid.IntRange(0, 2).Draw(t, label+"ddl") < 2 {
			st.K = "mkindex"
		} else {
			st.K = "rmindex"
		}
	}
	st.R = rapid.IntRange(0, 2).Draw(t, label+"route")
	switch st.K {
	case "create", "update", "delete":
		st.Alt = rapid.IntRange(0, 3).Draw(t, label+"alt") == 0
	}
	if st.K == "update" && actor == 0 {
		st.Reuse = rapid.IntRange(0, 2).Draw(t, label+"reuse") == 0
	}
	switch st.K {
	case "create", "delete", "get", "exists":
		st.D = rapid.IntRange(0, ndocs-1).Draw(t, label+"doc")
	case "update":
		st.D = rapid.IntRange(0, ndocs-1).Draw(t, label+"doc")
		if rapid.IntRange(0, 3).Draw(t, label+"field") == 0 {
			st.F = "tag"
			st.V = rapid.IntRange(0, len(tagPool)-1).Draw(t, label+"val")
		} else {
			st.F = "age"
			st.V = rapid.IntRange(0, 9).Draw(t, label+"val")
		}
	case "list", "count":
		switch rapid.IntRange(0, 3).Draw(t, label+"filter") {
		case 0:
			st.F = ""
		case 1:
			st.F = "tag"
			st.V = rapid.IntRange(0, len(tagPool)-1).Draw(t, label+"val")
		default:
			st.F = "age"
			st.V = rapid.IntRange(0, 9).Draw(t, label+"val")
		}
		if st.K == "list" {
			st.U = rapid.IntRange(0, 3).Draw(t, label+"showDeleted") == 0
		}
	case "mkindex":
		if rapid.Bool().Draw(t, label+"field") {
			st.F = "tag"
			st.U = rapid.Bool().Draw(t, label+"unique")
		} else {
			st.F = "age"
		}
	case "rmindex":
		if rapid.Bool().Draw(t, label+"field") {
			st.F = "tag"
		} else {
			st.F = "age"
		}
	}
	return st
}

func drawCase(t *rapid.T) Case {
	var c Case
	c.Avoid = rapid.Bool().Draw(t, "avoid")
	nd := rapid.SampledFrom([]int{1, 2, 3, 3, 4, 4}).Draw(t, "ndocs")
	for k := 0; k < nd; k++ {
		c.Docs = append(c.Docs, DocInit{
			Age: rapid.IntRange(0, 5).Draw(t, "age"),
			Tag: rapid.IntRange(0, len(tagPool)-1).Draw(t, "tag"),
		})
		c.Seed = append(c.Seed, rapid.IntRange(0, 2).Draw(t, "seed") > 0)
	}
	c.Index = rapid.SampledFrom([]string{"", "", "", "", "age", "age", "tag", "utag", "utag"}).Draw(t, "index")
	nt := rapid.IntRange(2, 3).Draw(t, "ntxn")
	affinity := nd >= 2 && rapid.IntRange(0, 2).Draw(t, "affinity") == 1
	queues := make([][]Step, nt+1)
	n0 := rapid.IntRange(0, 4).Draw(t, "nops0")
	for i := 0; i < n0; i++ {
		queues[0] = append(queues[0], drawOp(t, 0, nd, -1, "a0."))
	}
	for a := 1; a <= nt; a++ {
		ro := rapid.IntRange(0, 15).Draw(t, "readonly") == 7
		conc := rapid.IntRange(0, 4).Draw(t, "concurrentTxn") == 0
		queues[a] = append(queues[a], Step{A: a, K: "begin", U: ro, C: conc})
		n := rapid.IntRange(1, 6).Draw(t, "nops")
		for i := 0; i < n; i++ {
			pref := -1
			if affinity {
				pref = a - 1
			}
			queues[a] = append(queues[a], drawOp(t, a, nd, pref, fmt.Sprintf("a%d.", a)))
		}
		end := "commit"
		if rapid.IntRange(0, 4).Draw(t, "end") == 0 {
			end = "discard"
		}
		queues[a] = append(queues[a], Step{A: a, K: end})
	}
	for {
		live := []int{}
		for a, q := range queues {
			if len(q) > 0 {
				live = append(live, a)
			}
		}
		if len(live) == 0 {
			break
		}
		a := live[rapid.IntRange(0, len(live)-1).Draw(t, "pick")]
		c.Steps = append(c.Steps, queues[a][0])
		queues[a] = queues[a][1:]
	}
	if rapid.IntRange(0, 3).Draw(t, "retryTail") == 0 {
		// structured ending, the retry idiom: a transaction updates a seeded document through the collection API and is
		// discarded (or loses a conflict against a write made meanwhile); the update is then retried outside any
		// transaction with the same document object
		d := rapid.IntRange(0, nd-1).Draw(t, "retryDoc")
		c.Seed[d] = true
		a := nt + 1
		field, v := "age", rapid.IntRange(6, 9).Draw(t, "retryAge")
		c.Steps = append(c.Steps,
			Step{A: a, K: "begin"},
			Step{A: a, K: "update", D: d, F: field, V: v, R: 2, Alt: rapid.Bool().Draw(t, "retrySave")})
		if rapid.Bool().Draw(t, "retryConflict") {
			c.Steps = append(c.Steps, Step{A: 0, K: "update", D: d, F: "age", V: rapid.IntRange(10, 12).Draw(t, "otherAge"), R: rapid.IntRange(0, 2).Draw(t, "otherRoute")},
				Step{A: a, K: "commit"})
		} else {
			c.Steps = append(c.Steps, Step{A: a, K: "discard"})
		}
		c.Steps = append(c.Steps, Step{A: 0, K: "update", D: d, Reuse: true}, Step{A: 0, K: "get", D: d, R: rapid.IntRange(0, 2).Draw(t, "readRoute")})
	}
	return c
}

func evaluate(t hx.TB, c Case) bool {
	var inf info
	f := hx.Guard("C06", func() *hx.Failure {
		var f *hx.Failure
		f, inf = run(c)
		return f
	})
	labels := make([]string, 0, len(inf.labels))
	for l := range inf.labels {
		labels = append(labels, l)
	}
	sort.Strings(labels)
	rec.Eval(c, inf.nontrivial, labels...)
	return rec.Check(t, c, f)
}

func TestC06(t *testing.T) {
	rapid.Check(t, func(t *rapid.T) {
		c := drawCase(t)
		if evaluate(t, c) {
			return
		}
	})
}

func TestReplay(t *testing.T) {
	raw := hx.ReplayCase(t)
	rec.SetReplaying()
	if bc, ok := asBulk(raw); ok {
		rec.Check(t, bc, hx.Guard("C06", func() *hx.Failure { return runBulk(bc) }))
		return
	}
	var c Case
	if err := json.Unmarshal(raw, &c); err != nil {
		t.Fatal(err)
	}
	f := hx.Guard("C06", func() *hx.Failure { f, _ := run(c); return f })
	rec.Check(t, c, f)
}

func TestRegress(t *testing.T) {
	hx.Regress(t, "testdata/regress", func(raw []byte) *hx.Failure {
		if bc, ok := asBulk(raw); ok {
			return hx.Guard("C06", func() *hx.Failure { return runBulk(bc) })
		}
		var c Case
		if err := json.Unmarshal(raw, &c); err != nil {
			return hx.Failf("C06/regress-file", "%v", err)
		}
		return hx.Guard("C06", func() *hx.Failure { f, _ := run(c); return f })
	}, rec)
}
